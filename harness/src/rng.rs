//! Small deterministic PRNG (SplitMix64 seeding + xoshiro256**). No external crates.

#[derive(Clone)]
pub struct Rng {
    s: [u64; 4],
}

pub fn splitmix(x: &mut u64) -> u64 {
    *x = x.wrapping_add(0x9E37_79B9_7F4A_7C15);
    let mut z = *x;
    z = (z ^ (z >> 30)).wrapping_mul(0xBF58_476D_1CE4_E5B9);
    z = (z ^ (z >> 27)).wrapping_mul(0x94D0_49BB_1331_11EB);
    z ^ (z >> 31)
}

pub fn hash_str(s: &str) -> u64 {
    // FNV-1a 64, then one splitmix round
    let mut h: u64 = 0xcbf2_9ce4_8422_2325;
    for b in s.as_bytes() {
        h ^= *b as u64;
        h = h.wrapping_mul(0x0000_0100_0000_01B3);
    }
    let mut x = h;
    splitmix(&mut x)
}

impl Rng {
    pub fn new(seed: u64) -> Rng {
        let mut x = seed;
        let s = [
            splitmix(&mut x),
            splitmix(&mut x),
            splitmix(&mut x),
            splitmix(&mut x),
        ];
        Rng { s }
    }

    /// Independent stream for (seed, label, index).
    pub fn for_case(seed: u64, label: &str, index: u64) -> Rng {
        let mut x = seed ^ hash_str(label).rotate_left(17);
        let a = splitmix(&mut x);
        let mut y = a ^ index.wrapping_mul(0xD6E8_FEB8_6659_FD93);
        Rng::new(splitmix(&mut y))
    }

    pub fn next_u64(&mut self) -> u64 {
        let result = self.s[1].wrapping_mul(5).rotate_left(7).wrapping_mul(9);
        let t = self.s[1] << 17;
        self.s[2] ^= self.s[0];
        self.s[3] ^= self.s[1];
        self.s[1] ^= self.s[2];
        self.s[0] ^= self.s[3];
        self.s[2] ^= t;
        self.s[3] = self.s[3].rotate_left(45);
        result
    }

    /// Uniform in 0..n (n > 0).
    pub fn below(&mut self, n: u64) -> u64 {
        if n == 0 {
            return 0;
        }
        // multiply-shift; bias is negligible for our n
        ((self.next_u64() as u128 * n as u128) >> 64) as u64
    }

    pub fn usize(&mut self, n: usize) -> usize {
        self.below(n as u64) as usize
    }

    /// Uniform in lo..=hi
    pub fn range(&mut self, lo: i64, hi: i64) -> i64 {
        debug_assert!(lo <= hi);
        lo + self.below((hi - lo + 1) as u64) as i64
    }

    pub fn chance(&mut self, num: u64, den: u64) -> bool {
        self.below(den) < num
    }

    pub fn coin(&mut self) -> bool {
        self.next_u64() & 1 == 1
    }

    pub fn pick<'a, T>(&mut self, v: &'a [T]) -> &'a T {
        &v[self.usize(v.len())]
    }

    pub fn pick_weighted(&mut self, weights: &[u32]) -> usize {
        let total: u64 = weights.iter().map(|w| *w as u64).sum();
        let mut r = self.below(total.max(1));
        for (i, w) in weights.iter().enumerate() {
            if r < *w as u64 {
                return i;
            }
            r -= *w as u64;
        }
        weights.len() - 1
    }

    pub fn shuffle<T>(&mut self, v: &mut [T]) {
        for i in (1..v.len()).rev() {
            let j = self.usize(i + 1);
            v.swap(i, j);
        }
    }

    pub fn f64(&mut self) -> f64 {
        (self.next_u64() >> 11) as f64 / (1u64 << 53) as f64
    }
}
