//! Reference models. Written against the manual (`/repo/src/doc`) and the property statements,
//! never by calling the code under test.
pub mod val;
