//! Value model: the four BASIC types, operators, promotion and assignment conversion as the
//! manual (chapter 1) documents them.

#[derive(Clone, Debug, PartialEq)]
pub enum V {
    I(i16),
    S(f32),
    D(f64),
    Str(String),
}

#[derive(Clone, Copy, Debug, PartialEq, Eq, Hash, PartialOrd, Ord)]
pub enum Ty {
    I,
    S,
    D,
    Str,
}

#[derive(Clone, Copy, Debug, PartialEq, Eq, Hash, PartialOrd, Ord)]
pub enum Code {
    Break,
    NextWithoutFor,
    Syntax,
    ReturnWithoutGosub,
    OutOfData,
    IllegalFn,
    Overflow,
    OutOfMemory,
    UndefinedLine,
    Subscript,
    Redim,
    DivZero,
    IllegalDirect,
    TypeMismatch,
    StringTooLong,
    CantContinue,
    UndefinedFn,
}

impl Code {
    pub fn name(self) -> &'static str {
        match self {
            Code::Break => "BREAK",
            Code::NextWithoutFor => "NEXT WITHOUT FOR",
            Code::Syntax => "SYNTAX ERROR",
            Code::ReturnWithoutGosub => "RETURN WITHOUT GOSUB",
            Code::OutOfData => "OUT OF DATA",
            Code::IllegalFn => "ILLEGAL FUNCTION CALL",
            Code::Overflow => "OVERFLOW",
            Code::OutOfMemory => "OUT OF MEMORY",
            Code::UndefinedLine => "UNDEFINED LINE",
            Code::Subscript => "SUBSCRIPT OUT OF RANGE",
            Code::Redim => "REDIMENSIONED ARRAY",
            Code::DivZero => "DIVISION BY ZERO",
            Code::IllegalDirect => "ILLEGAL DIRECT",
            Code::TypeMismatch => "TYPE MISMATCH",
            Code::StringTooLong => "STRING TOO LONG",
            Code::CantContinue => "CAN'T CONTINUE",
            Code::UndefinedFn => "UNDEFINED USER FUNCTION",
        }
    }
}

/// Model outcome that is not a value.
#[derive(Clone, Copy, Debug, PartialEq, Eq)]
pub enum MErr {
    /// A BASIC error with this code.
    Code(Code),
    /// Some BASIC error; the documents do not fix which.
    Any,
    /// The documents do not fix the behaviour: the case must be discarded, never judged.
    Unspec,
}

pub type MR<T> = Result<T, MErr>;

pub fn err<T>(c: Code) -> MR<T> {
    Err(MErr::Code(c))
}

impl V {
    pub fn ty(&self) -> Ty {
        match self {
            V::I(_) => Ty::I,
            V::S(_) => Ty::S,
            V::D(_) => Ty::D,
            V::Str(_) => Ty::Str,
        }
    }
    pub fn is_num(&self) -> bool {
        !matches!(self, V::Str(_))
    }
    pub fn as_f64(&self) -> Option<f64> {
        match self {
            V::I(n) => Some(*n as f64),
            V::S(n) => Some(*n as f64),
            V::D(n) => Some(*n),
            V::Str(_) => None,
        }
    }
    pub fn zero(ty: Ty) -> V {
        match ty {
            Ty::I => V::I(0),
            Ty::S => V::S(0.0),
            Ty::D => V::D(0.0),
            Ty::Str => V::Str(String::new()),
        }
    }
    pub fn is_default(&self) -> bool {
        match self {
            V::I(n) => *n == 0,
            V::S(n) => *n == 0.0,
            V::D(n) => *n == 0.0,
            V::Str(s) => s.is_empty(),
        }
    }
    /// Debug rendering that distinguishes type and exact bits.
    pub fn show(&self) -> String {
        match self {
            V::I(n) => format!("{}%", n),
            V::S(n) => format!("{:?}!", n),
            V::D(n) => format!("{:?}#", n),
            V::Str(s) => format!("{:?}", s),
        }
    }
}

#[derive(Clone, Copy, Debug, PartialEq, Eq, Hash, PartialOrd, Ord)]
pub enum BinOp {
    Pow,
    Mul,
    Div,
    IDiv,
    Mod,
    Add,
    Sub,
    Eq,
    Ne,
    Lt,
    Le,
    Gt,
    Ge,
    And,
    Or,
    Xor,
    Imp,
    Eqv,
}

#[derive(Clone, Copy, Debug, PartialEq, Eq, Hash, PartialOrd, Ord)]
pub enum UnOp {
    Neg,
    Pos,
    Not,
}

pub const ALL_BINOPS: [BinOp; 18] = [
    BinOp::Pow,
    BinOp::Mul,
    BinOp::Div,
    BinOp::IDiv,
    BinOp::Mod,
    BinOp::Add,
    BinOp::Sub,
    BinOp::Eq,
    BinOp::Ne,
    BinOp::Lt,
    BinOp::Le,
    BinOp::Gt,
    BinOp::Ge,
    BinOp::And,
    BinOp::Or,
    BinOp::Xor,
    BinOp::Imp,
    BinOp::Eqv,
];

impl BinOp {
    /// The manual's precedence level (chapter 1 table).
    pub fn level(self) -> u8 {
        match self {
            BinOp::Pow => 13,
            BinOp::Mul | BinOp::Div => 11,
            BinOp::IDiv => 10,
            BinOp::Mod => 9,
            BinOp::Add | BinOp::Sub => 8,
            BinOp::Eq | BinOp::Ne | BinOp::Lt | BinOp::Le | BinOp::Gt | BinOp::Ge => 7,
            BinOp::And => 5,
            BinOp::Or => 4,
            BinOp::Xor => 3,
            BinOp::Imp => 2,
            BinOp::Eqv => 1,
        }
    }
    pub fn text(self) -> &'static str {
        match self {
            BinOp::Pow => "^",
            BinOp::Mul => "*",
            BinOp::Div => "/",
            BinOp::IDiv => "\\",
            BinOp::Mod => "MOD",
            BinOp::Add => "+",
            BinOp::Sub => "-",
            BinOp::Eq => "=",
            BinOp::Ne => "<>",
            BinOp::Lt => "<",
            BinOp::Le => "<=",
            BinOp::Gt => ">",
            BinOp::Ge => ">=",
            BinOp::And => "AND",
            BinOp::Or => "OR",
            BinOp::Xor => "XOR",
            BinOp::Imp => "IMP",
            BinOp::Eqv => "EQV",
        }
    }
    pub fn is_word(self) -> bool {
        matches!(
            self,
            BinOp::Mod | BinOp::And | BinOp::Or | BinOp::Xor | BinOp::Imp | BinOp::Eqv
        )
    }
}

impl UnOp {
    pub fn level(self) -> u8 {
        match self {
            UnOp::Neg | UnOp::Pos => 12,
            UnOp::Not => 6,
        }
    }
    pub fn text(self) -> &'static str {
        match self {
            UnOp::Neg => "-",
            UnOp::Pos => "+",
            UnOp::Not => "NOT",
        }
    }
}

/// Conversion to a 16-bit Integer as assignment to an Integer variable does it: floor, then range.
pub fn to_int(v: &V) -> MR<i16> {
    match v {
        V::I(n) => Ok(*n),
        V::S(x) => float_to_int(*x as f64),
        V::D(x) => float_to_int(*x),
        V::Str(_) => err(Code::TypeMismatch),
    }
}

pub fn float_to_int(x: f64) -> MR<i16> {
    if x.is_nan() || x.is_infinite() {
        return err(Code::Overflow);
    }
    let f = x.floor();
    if f < -32768.0 || f > 32767.0 {
        return err(Code::Overflow);
    }
    Ok(f as i16)
}

fn range_i(n: i64) -> MR<V> {
    if (-32768..=32767).contains(&n) {
        Ok(V::I(n as i16))
    } else {
        err(Code::Overflow)
    }
}

fn both_err<T>(a: &MR<T>, b: &MR<T>) -> Option<MErr> {
    match (a, b) {
        (Err(MErr::Unspec), _) | (_, Err(MErr::Unspec)) => Some(MErr::Unspec),
        (Err(x), Err(y)) => {
            if x == y {
                Some(*x)
            } else {
                Some(MErr::Any)
            }
        }
        (Err(x), _) => Some(*x),
        (_, Err(y)) => Some(*y),
        _ => None,
    }
}

pub fn unop(op: UnOp, v: &V) -> MR<V> {
    match op {
        UnOp::Pos => match v {
            // the manual calls it "unity"; applying it to a string is not documented
            V::Str(_) => Err(MErr::Unspec),
            _ => Ok(v.clone()),
        },
        UnOp::Neg => match v {
            V::I(n) => range_i(-(*n as i64)),
            V::S(x) => Ok(V::S(-*x)),
            V::D(x) => Ok(V::D(-*x)),
            V::Str(_) => err(Code::TypeMismatch),
        },
        UnOp::Not => Ok(V::I(!to_int(v)?)),
    }
}

fn rel(op: BinOp, ord: Option<std::cmp::Ordering>) -> V {
    use std::cmp::Ordering::*;
    let b = match (op, ord) {
        (_, None) => matches!(op, BinOp::Ne),
        (BinOp::Eq, Some(o)) => o == Equal,
        (BinOp::Ne, Some(o)) => o != Equal,
        (BinOp::Lt, Some(o)) => o == Less,
        (BinOp::Le, Some(o)) => o != Greater,
        (BinOp::Gt, Some(o)) => o == Greater,
        (BinOp::Ge, Some(o)) => o != Less,
        _ => false,
    };
    V::I(if b { -1 } else { 0 })
}

pub fn binop(op: BinOp, l: &V, r: &V) -> MR<V> {
    use BinOp::*;
    match op {
        And | Or | Xor | Imp | Eqv | IDiv | Mod => {
            let a = to_int(l);
            let b = to_int(r);
            if let Some(e) = both_err(&a, &b) {
                return Err(e);
            }
            let (a, b) = (a.unwrap(), b.unwrap());
            match op {
                And => Ok(V::I(a & b)),
                Or => Ok(V::I(a | b)),
                Xor => Ok(V::I(a ^ b)),
                Imp => Ok(V::I(!a | b)),
                Eqv => Ok(V::I(!(a ^ b))),
                IDiv => {
                    if b == 0 {
                        return err(Code::DivZero);
                    }
                    // truncating division, as every BASIC with `\` does; exact in i64
                    range_i((a as i64) / (b as i64))
                }
                Mod => {
                    if b == 0 {
                        return err(Code::DivZero);
                    }
                    range_i((a as i64) % (b as i64))
                }
                _ => unreachable!(),
            }
        }
        Eq | Ne | Lt | Le | Gt | Ge => match (l, r) {
            (V::Str(a), V::Str(b)) => Ok(rel(op, Some(a.as_str().cmp(b.as_str())))),
            (V::Str(_), _) | (_, V::Str(_)) => err(Code::TypeMismatch),
            _ => {
                // promotion: compare in the wider type; every i16/f32 is exact in f64 except that
                // Integer vs Single is compared in Single (identical result, both exact in f32).
                let a = l.as_f64().unwrap();
                let b = r.as_f64().unwrap();
                if matches!(op, Eq | Ne) {
                    if a.is_nan() || b.is_nan() || a.is_infinite() || b.is_infinite() {
                        return Err(MErr::Unspec);
                    }
                    let d = (a - b).abs();
                    if d != 0.0 && d <= 1.0e-6 {
                        // inside the implementation's documented-nowhere equality tolerance
                        return Err(MErr::Unspec);
                    }
                }
                Ok(rel(op, a.partial_cmp(&b)))
            }
        },
        Add => match (l, r) {
            (V::Str(a), V::Str(b)) => {
                let mut s = a.clone();
                s.push_str(b);
                Ok(V::Str(s))
            }
            (V::Str(_), _) | (_, V::Str(_)) => err(Code::TypeMismatch),
            _ => arith(op, l, r),
        },
        Sub | Mul | Div | Pow => match (l, r) {
            (V::Str(_), _) | (_, V::Str(_)) => err(Code::TypeMismatch),
            _ => arith(op, l, r),
        },
    }
}

fn arith(op: BinOp, l: &V, r: &V) -> MR<V> {
    use BinOp::*;
    match (l, r) {
        (V::I(a), V::I(b)) => {
            let (a, b) = (*a as i64, *b as i64);
            match op {
                Add => range_i(a + b),
                Sub => range_i(a - b),
                Mul => range_i(a * b),
                // '/' on Integers is computed in Single
                Div => Ok(V::S(a as f32 / b as f32)),
                Pow => {
                    if b >= 0 {
                        let mut acc: i64 = 1;
                        for _ in 0..b {
                            acc *= a;
                            if !(-32768..=32767).contains(&acc) {
                                // may come back in range only for a in {-1,0,1}; those never leave it
                                return err(Code::Overflow);
                            }
                            if acc == 0 || acc == 1 && a == 1 {
                                break;
                            }
                        }
                        if a == -1 {
                            acc = if b % 2 == 0 { 1 } else { -1 };
                        }
                        range_i(acc)
                    } else {
                        Ok(V::S((a as f64).powf(b as f64) as f32))
                    }
                }
                _ => unreachable!(),
            }
        }
        _ => {
            let wide = matches!(l, V::D(_)) || matches!(r, V::D(_));
            if wide {
                let a = l.as_f64().unwrap();
                let b = r.as_f64().unwrap();
                Ok(V::D(match op {
                    Add => a + b,
                    Sub => a - b,
                    Mul => a * b,
                    Div => a / b,
                    Pow => a.powf(b),
                    _ => unreachable!(),
                }))
            } else {
                let a = l.as_f64().unwrap() as f32;
                let b = r.as_f64().unwrap() as f32;
                Ok(V::S(match op {
                    Add => a + b,
                    Sub => a - b,
                    Mul => a * b,
                    Div => a / b,
                    Pow => (a as f64).powf(b as f64) as f32,
                    _ => unreachable!(),
                }))
            }
        }
    }
}

/// Assignment conversion to the target type.
pub fn assign(ty: Ty, v: &V) -> MR<V> {
    match (ty, v) {
        (Ty::Str, V::Str(s)) => {
            if s.chars().count() > 255 {
                err(Code::StringTooLong)
            } else {
                Ok(v.clone())
            }
        }
        (Ty::Str, _) => err(Code::TypeMismatch),
        (_, V::Str(_)) => err(Code::TypeMismatch),
        (Ty::I, _) => Ok(V::I(to_int(v)?)),
        (Ty::S, V::I(n)) => Ok(V::S(*n as f32)),
        (Ty::S, V::S(_)) => Ok(v.clone()),
        (Ty::S, V::D(x)) => {
            let y = *x as f32;
            if x.is_finite() && !y.is_finite() {
                // a finite Double too large for a Single: "loss of precision" does not say what happens
                Err(MErr::Unspec)
            } else {
                Ok(V::S(y))
            }
        }
        (Ty::D, _) => Ok(V::D(v.as_f64().unwrap())),
    }
}

/// How exactly a floating result must agree.
#[derive(Clone, Copy, PartialEq, Eq, Debug)]
pub enum Tol {
    Exact,
    /// result of `^` or of a transcendental function
    Loose,
    /// only the numeric value matters (type not fixed by the manual)
    ValueOnly,
}

pub fn same(model: &V, got: &V, tol: Tol) -> bool {
    fn close(a: f64, b: f64, rel: f64) -> bool {
        if a.is_nan() && b.is_nan() {
            return true;
        }
        if a == b {
            return true;
        }
        if a.is_infinite() || b.is_infinite() || a.is_nan() || b.is_nan() {
            return false;
        }
        let m = a.abs().max(b.abs());
        (a - b).abs() <= rel * m || (a - b).abs() < 1e-300
    }
    if tol == Tol::ValueOnly {
        return match (model.as_f64(), got.as_f64()) {
            (Some(a), Some(b)) => close(a, b, 0.0),
            _ => model == got,
        };
    }
    match (model, got) {
        (V::I(a), V::I(b)) => a == b,
        (V::Str(a), V::Str(b)) => a == b,
        (V::S(a), V::S(b)) => {
            if tol == Tol::Exact {
                a.to_bits() == b.to_bits() || (a.is_nan() && b.is_nan()) || (*a == 0.0 && *b == 0.0)
            } else {
                close(*a as f64, *b as f64, 1e-5)
            }
        }
        (V::D(a), V::D(b)) => {
            if tol == Tol::Exact {
                a.to_bits() == b.to_bits() || (a.is_nan() && b.is_nan()) || (*a == 0.0 && *b == 0.0)
            } else {
                close(*a, *b, 1e-11)
            }
        }
        _ => false,
    }
}

/// Text PRINT produces for a number: sign column, shortest decimal that reads back, trailing blank.
/// `None` when the value is outside the range where plain notation is the only reasonable choice
/// (the property leaves plain vs. exponent notation open), so model-vs-code transcript comparison
/// must not depend on it.
pub fn print_num(v: &V) -> Option<String> {
    let body = match v {
        V::I(n) => format!("{}", (*n as i32).abs()),
        V::S(x) => {
            if !x.is_finite() {
                return None;
            }
            let a = x.abs();
            if a != 0.0 && !(1.0e-4..1.0e7).contains(&a) {
                return None;
            }
            let s = format!("{}", a);
            if s.chars().filter(|c| c.is_ascii_digit()).count() > 8 {
                return None;
            }
            s
        }
        V::D(x) => {
            if !x.is_finite() {
                return None;
            }
            let a = x.abs();
            if a != 0.0 && !(1.0e-4..1.0e14).contains(&a) {
                return None;
            }
            let s = format!("{}", a);
            if s.chars().filter(|c| c.is_ascii_digit()).count() > 16 {
                return None;
            }
            s
        }
        V::Str(_) => return None,
    };
    let neg = match v {
        V::I(n) => *n < 0,
        V::S(x) => x.is_sign_negative() && *x != 0.0,
        V::D(x) => x.is_sign_negative() && *x != 0.0,
        _ => false,
    };
    // negative zero: sign column not fixed by the documents
    match v {
        V::S(x) if *x == 0.0 && x.is_sign_negative() => return None,
        V::D(x) if *x == 0.0 && x.is_sign_negative() => return None,
        _ => {}
    }
    Some(format!("{}{} ", if neg { "-" } else { " " }, body))
}
