#![allow(dead_code, unused_imports, unused_assignments)]
//! vh — verification harness worker for AE9RB/basic-lang (runtime monitoring family).
//!
//! `vh run <PROP> --tier quick|thorough --seed N --shard i/n --out DIR [--start K] [--only K]`
//!
//! Prints JSON lines (sample / viol / hang / done) on stdout; the orchestrator (`/verif/check`)
//! aggregates them into the verdict and the evidence file.

mod alloc;
mod conv;
mod ctx;
mod drive;
mod gen;
mod model;
mod mon;
mod props;
mod rng;

#[global_allocator]
static GLOBAL: alloc::Counting = alloc::Counting;

use ctx::{Ctx, Tier};
use rng::Rng;
use std::time::Instant;

pub trait Prop {
    /// Number of cases (fixed corpus first, then generated) for the tier.
    fn cases(&self, tier: Tier) -> u64;
    fn run_case(&mut self, idx: u64, rng: &mut Rng, ctx: &mut Ctx);
    /// CPU seconds one case may burn before the watchdog calls it a hang.
    fn cpu_budget_s(&self) -> u64 {
        20
    }
    /// How cases are generated and what makes one non-trivial (goes into the evidence file).
    fn rule(&self) -> &'static str;
}

struct Args {
    prop: String,
    tier: Tier,
    seed: u64,
    shard: u64,
    nshards: u64,
    out: String,
    start: u64,
    only: Option<u64>,
    wall_cap_s: u64,
}

fn parse_args() -> Args {
    let v: Vec<String> = std::env::args().collect();
    if v.len() < 3 || v[1] != "run" {
        eprintln!("usage: vh run <PROP> --tier quick|thorough --seed N --shard i/n --out DIR [--start K] [--only K] [--wall-cap S]");
        std::process::exit(64);
    }
    let mut a = Args {
        prop: v[2].clone(),
        tier: Tier::Quick,
        seed: 1,
        shard: 0,
        nshards: 1,
        out: ".".into(),
        start: 0,
        only: None,
        wall_cap_s: 3600,
    };
    let mut i = 3;
    while i < v.len() {
        let val = v.get(i + 1).cloned().unwrap_or_default();
        match v[i].as_str() {
            "--tier" => {
                a.tier = if val == "thorough" {
                    Tier::Thorough
                } else {
                    Tier::Quick
                }
            }
            "--seed" => a.seed = val.parse().unwrap_or(1),
            "--shard" => {
                let mut it = val.split('/');
                a.shard = it.next().and_then(|s| s.parse().ok()).unwrap_or(0);
                a.nshards = it.next().and_then(|s| s.parse().ok()).unwrap_or(1);
            }
            "--out" => a.out = val,
            "--start" => a.start = val.parse().unwrap_or(0),
            "--only" => a.only = val.parse().ok(),
            "--wall-cap" => a.wall_cap_s = val.parse().unwrap_or(3600),
            other => {
                eprintln!("unknown argument {}", other);
                std::process::exit(64);
            }
        }
        i += 2;
    }
    a
}

fn worker(a: Args) {
    let mut prop = match props::make(&a.prop) {
        Some(p) => p,
        None => {
            eprintln!("unknown property {}", a.prop);
            std::process::exit(64);
        }
    };
    mon::register_worker_thread();
    mon::install_panic_hook();
    mon::open_journal(&format!("{}/journal.{}", a.out, a.shard));
    mon::start_watchdog(prop.cpu_budget_s(), a.prop.clone(), a.shard);
    let mut ctx = Ctx::new(&a.prop, a.tier, a.seed, a.shard, a.nshards);
    // VERIF_CASES_SCALE: run a fraction / multiple of the tier's cases (validation sweeps use < 1)
    let scale: f64 = std::env::var("VERIF_CASES_SCALE").ok().and_then(|v| v.parse().ok()).unwrap_or(1.0);
    let total = ((prop.cases(a.tier) as f64) * scale).max(1.0) as u64;
    let t0 = Instant::now();
    let mut complete = true;
    let mut next = total;
    if let Some(k) = a.only {
        ctx.verbose = true;
        ctx.max_samples = 0;
        ctx.case = k;
        mon::begin_case(k);
        let mut rng = Rng::for_case(a.seed, &a.prop, k);
        run_one(prop.as_mut(), k, &mut rng, &mut ctx);
        ctx.rule = prop.rule().to_string();
        ctx.finish(k + 1, true);
        return;
    }
    let mut idx = a.start;
    while idx % a.nshards != a.shard % a.nshards {
        idx += 1;
    }
    while idx < total {
        if t0.elapsed().as_secs() > a.wall_cap_s {
            complete = false;
            next = idx;
            break;
        }
        ctx.case = idx;
        ctx.case_violated = false;
        mon::begin_case(idx);
        let mut rng = Rng::for_case(a.seed, &a.prop, idx);
        run_one(prop.as_mut(), idx, &mut rng, &mut ctx);
        idx += a.nshards;
    }
    ctx.rule = prop.rule().to_string();
    ctx.write_hashes(&format!("{}/hashes.{}.bin", a.out, a.shard));
    ctx.finish(next, complete);
}

fn run_one(prop: &mut dyn Prop, idx: u64, rng: &mut Rng, ctx: &mut Ctx) {
    let r = mon::catch(|| prop.run_case(idx, rng, ctx));
    mon::unlimited_fuel();
    if let Err((msg, loc)) = r {
        let text = mon::journal_text();
        if mon::is_fuel_panic(&msg) {
            ctx.violation(
                "hang",
                &format!("fuel:{}", msg),
                &format!("loop budget exhausted: {} ({})", msg, loc),
                &text,
            );
        } else {
            // location inside the harness itself is a harness bug, not a verdict about the code
            let kind = if mon::is_repo_location(&loc) {
                "panic"
            } else {
                "harness-panic"
            };
            ctx.violation(
                kind,
                &format!("panic:{}", loc),
                &format!("panic: {} at {}", msg, loc),
                &text,
            );
        }
    }
}

/// `vh script [quantum]`: stdin lines are typed at the prompt (INPUT replies when asked); prints the transcript.
fn script() {
    use std::io::BufRead;
    let q: usize = std::env::args().nth(2).and_then(|s| s.parse().ok()).unwrap_or(5000);
    let mut s = drive::Session::with_quantum(q);
    s.drain(16);
    let mark = s.mark();
    for line in std::io::stdin().lock().lines() {
        let line = line.unwrap_or_default();
        if line == "<BREAK>" {
            s.interrupt();
        } else {
            s.enter(&line);
        }
        s.drain(2000);
    }
    println!("{}", drive::transcript(s.events_since(mark), drive::Norm { raw_errors: true, drop_ready: false }));
}

fn main() {
    if std::env::args().nth(1).as_deref() == Some("script") {
        return script();
    }
    let a = parse_args();
    // 8 MiB, the size of the main thread's stack in the real binary
    let h = std::thread::Builder::new()
        .stack_size(8 * 1024 * 1024)
        .spawn(move || worker(a))
        .expect("spawn worker");
    if h.join().is_err() {
        std::process::exit(70);
    }
}
