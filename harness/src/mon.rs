//! Monitors that are not property specific: panic catcher, fuel classification, CPU-time
//! watchdog (bounded-progress restatement of "never wedges"), crash journal.

use std::cell::RefCell;
use std::io::{Seek, SeekFrom, Write};
use std::panic::{catch_unwind, AssertUnwindSafe};
use std::sync::atomic::{AtomicU64, Ordering};
use std::sync::Mutex;

thread_local! {
    static LAST_PANIC: RefCell<Option<(String, String)>> = const { RefCell::new(None) };
}

static CASE_SEQ: AtomicU64 = AtomicU64::new(0);
static CASE_IDX: AtomicU64 = AtomicU64::new(0);
static WORKER_TID: AtomicU64 = AtomicU64::new(0);
static JOURNAL: Mutex<String> = Mutex::new(String::new());
static JOURNAL_FILE: Mutex<Option<std::fs::File>> = Mutex::new(None);

pub fn install_panic_hook() {
    std::panic::set_hook(Box::new(|info| {
        let msg = if let Some(s) = info.payload().downcast_ref::<&str>() {
            s.to_string()
        } else if let Some(s) = info.payload().downcast_ref::<String>() {
            s.clone()
        } else {
            "<non-string panic>".to_string()
        };
        let loc = match info.location() {
            Some(l) => format!("{}:{}", l.file(), l.line()),
            None => "<unknown>".to_string(),
        };
        LAST_PANIC.with(|p| *p.borrow_mut() = Some((msg, loc)));
    }));
}

/// Runs `f`; a panic is returned as (message, location).
pub fn catch<R, F: FnOnce() -> R>(f: F) -> Result<R, (String, String)> {
    LAST_PANIC.with(|p| *p.borrow_mut() = None);
    match catch_unwind(AssertUnwindSafe(f)) {
        Ok(r) => Ok(r),
        Err(_) => {
            let got = LAST_PANIC.with(|p| p.borrow_mut().take());
            Err(got.unwrap_or_else(|| ("<panic>".into(), "<unknown>".into())))
        }
    }
}

/// Panic locations inside the code under test (path dependency: rustc sees `src/lang/..`,
/// `src/mach/..` relative to /repo) or inside std on its behalf. Anything in the harness's own
/// modules is a harness bug and must never be reported as a verdict about the code.
pub fn is_repo_location(loc: &str) -> bool {
    if loc.contains("/repo/") || loc.starts_with("src/lang/") || loc.starts_with("src/mach/") {
        return true;
    }
    if loc.starts_with("/rustc/") || loc.contains("/library/") {
        // std code; attribute to the code under test only if no harness frame is the origin.
        // The hook cannot see frames, so std locations are attributed to the code under test:
        // the harness itself does no unchecked indexing/unwrapping on data derived from outputs.
        return true;
    }
    false
}

pub fn is_fuel_panic(msg: &str) -> bool {
    msg.starts_with("VERIF-FUEL-EXHAUSTED")
}

pub fn set_fuel(n: u64) {
    basic::mach::verif::set_fuel(n);
}

pub fn unlimited_fuel() {
    basic::mach::verif::set_fuel(u64::MAX);
}

pub fn open_journal(path: &str) {
    if let Ok(f) = std::fs::OpenOptions::new()
        .create(true)
        .write(true)
        .truncate(true)
        .open(path)
    {
        *JOURNAL_FILE.lock().unwrap() = Some(f);
    }
}

/// Called by the worker before each case.
pub fn begin_case(idx: u64) {
    CASE_IDX.store(idx, Ordering::SeqCst);
    CASE_SEQ.fetch_add(1, Ordering::SeqCst);
    if let Ok(mut j) = JOURNAL.lock() {
        j.clear();
    }
    write_journal_file(idx, "");
}

fn write_journal_file(idx: u64, text: &str) {
    if let Ok(mut g) = JOURNAL_FILE.lock() {
        if let Some(f) = g.as_mut() {
            let mut buf = Vec::with_capacity(text.len() + 32);
            buf.extend_from_slice(format!("{}\n", idx).as_bytes());
            buf.extend_from_slice(text.as_bytes());
            buf.extend_from_slice(b"\n\x00END\x00\n");
            let _ = f.seek(SeekFrom::Start(0));
            let _ = f.write_all(&buf);
            let _ = f.set_len(buf.len() as u64);
        }
    }
}

/// Records what the case is about to do (so that a crash or hang can name its input).
pub fn journal(text: &str) {
    if let Ok(mut j) = JOURNAL.lock() {
        j.clear();
        j.push_str(text);
    }
    write_journal_file(CASE_IDX.load(Ordering::SeqCst), text);
}

pub fn journal_text() -> String {
    match JOURNAL.lock() {
        Ok(j) => j.clone(),
        Err(_) => String::new(),
    }
}

fn thread_cpu_ticks(tid: u64) -> Option<u64> {
    let s = std::fs::read_to_string(format!("/proc/self/task/{}/stat", tid)).ok()?;
    // fields after the last ')' : state is field 3
    let rest = &s[s.rfind(')')? + 2..];
    let f: Vec<&str> = rest.split_ascii_whitespace().collect();
    // rest[0] = state (field 3) ... utime = field 14 -> index 11, stime = field 15 -> index 12
    let ut: u64 = f.get(11)?.parse().ok()?;
    let st: u64 = f.get(12)?.parse().ok()?;
    Some(ut + st)
}

pub fn register_worker_thread() {
    if let Ok(p) = std::fs::read_link("/proc/thread-self") {
        if let Some(t) = p.file_name().and_then(|s| s.to_str()) {
            if let Ok(tid) = t.parse::<u64>() {
                WORKER_TID.store(tid, Ordering::SeqCst);
            }
        }
    }
}

/// Starts the CPU-time watchdog: if one case burns more than `cpu_budget_s` CPU seconds on the
/// worker thread, a hang record is printed and the process exits with status 3.
pub fn start_watchdog(cpu_budget_s: u64, prop: String, shard: u64) {
    // under Miri everything is thousands of times slower and /proc is the host's: no CPU watchdog
    // (the orchestrator's wall-clock cap, whose firing is inconclusive, still bounds the run)
    if cfg!(miri) {
        return;
    }
    std::thread::spawn(move || {
        let mut last_seq = u64::MAX;
        let mut cpu_at_start = 0u64;
        loop {
            std::thread::sleep(std::time::Duration::from_millis(100));
            let tid = WORKER_TID.load(Ordering::SeqCst);
            if tid == 0 {
                continue;
            }
            let seq = CASE_SEQ.load(Ordering::SeqCst);
            let cpu = match thread_cpu_ticks(tid) {
                Some(c) => c,
                None => continue,
            };
            if seq != last_seq {
                last_seq = seq;
                cpu_at_start = cpu;
                continue;
            }
            // CLK_TCK is 100 on Linux
            if cpu.saturating_sub(cpu_at_start) > cpu_budget_s * 100 {
                let idx = CASE_IDX.load(Ordering::SeqCst);
                let text = match JOURNAL.try_lock() {
                    Ok(j) => j.clone(),
                    Err(_) => String::new(),
                };
                let line = format!(
                    "{{\"t\":\"hang\",\"prop\":{},\"case\":{},\"shard\":{},\"cpu_s\":{},\"witness\":{}}}",
                    crate::ctx::json_str(&prop),
                    idx,
                    shard,
                    cpu.saturating_sub(cpu_at_start) / 100,
                    crate::ctx::json_str(&text)
                );
                let out = std::io::stdout();
                let mut l = out.lock();
                let _ = writeln!(l, "{}", line);
                let _ = l.flush();
                std::process::exit(3);
            }
        }
    });
}
