//! Per-worker bookkeeping: counters, coverage sets, samples, violations, JSON lines output.

use crate::rng::hash_str;
use std::collections::{BTreeMap, BTreeSet, HashSet};
use std::io::Write;

#[derive(Clone, Copy, PartialEq, Eq, Debug)]
pub enum Tier {
    Quick,
    Thorough,
}

#[derive(Clone, Copy, PartialEq, Eq, Debug)]
pub enum Flavour {
    Ship,
    Chk,
}

pub fn flavour() -> Flavour {
    if cfg!(debug_assertions) {
        Flavour::Chk
    } else {
        Flavour::Ship
    }
}

pub fn json_str(s: &str) -> String {
    let mut o = String::with_capacity(s.len() + 2);
    o.push('"');
    for c in s.chars() {
        match c {
            '"' => o.push_str("\\\""),
            '\\' => o.push_str("\\\\"),
            '\n' => o.push_str("\\n"),
            '\r' => o.push_str("\\r"),
            '\t' => o.push_str("\\t"),
            c if (c as u32) < 0x20 => o.push_str(&format!("\\u{:04x}", c as u32)),
            c => o.push(c),
        }
    }
    o.push('"');
    o
}

pub struct Violation {
    pub case: u64,
    pub kind: String,
    pub sig: String,
    pub detail: String,
    pub witness: String,
}

pub struct Ctx {
    pub prop: String,
    pub tier: Tier,
    pub seed: u64,
    pub shard: u64,
    pub nshards: u64,
    pub case: u64,
    pub verbose: bool,
    pub counters: BTreeMap<String, u64>,
    pub sets: BTreeMap<String, BTreeSet<String>>,
    pub maxes: BTreeMap<String, u64>,
    pub hashes: HashSet<u64>,
    pub evals: u64,
    pub samples_emitted: u64,
    pub max_samples: u64,
    pub viol_count: u64,
    pub viol_by_sig: BTreeMap<String, u64>,
    pub case_violated: bool,
    pub rule: String,
    /// cases that are distinct by construction (exhaustive enumerations), counted not hashed
    pub distinct_by_construction: u64,
}

impl Ctx {
    pub fn new(prop: &str, tier: Tier, seed: u64, shard: u64, nshards: u64) -> Ctx {
        Ctx {
            prop: prop.to_string(),
            tier,
            seed,
            shard,
            nshards,
            case: 0,
            verbose: false,
            counters: BTreeMap::new(),
            sets: BTreeMap::new(),
            maxes: BTreeMap::new(),
            hashes: HashSet::new(),
            evals: 0,
            samples_emitted: 0,
            max_samples: 4,
            viol_count: 0,
            viol_by_sig: BTreeMap::new(),
            case_violated: false,
            rule: String::new(),
            distinct_by_construction: 0,
        }
    }

    pub fn count(&mut self, key: &str) {
        self.add(key, 1);
    }

    pub fn add(&mut self, key: &str, n: u64) {
        if let Some(v) = self.counters.get_mut(key) {
            *v += n;
        } else {
            self.counters.insert(key.to_string(), n);
        }
    }

    pub fn max(&mut self, key: &str, n: u64) {
        let e = self.maxes.entry(key.to_string()).or_insert(0);
        if n > *e {
            *e = n;
        }
    }

    /// Records a member of a named coverage set (bounded).
    pub fn cover(&mut self, set: &str, member: &str) {
        let s = self.sets.entry(set.to_string()).or_default();
        if s.len() < 4096 {
            if !s.contains(member) {
                s.insert(member.to_string());
            }
        }
    }

    /// One evaluated case; `key` identifies the case text, `nontrivial` by the property's rule.
    pub fn eval(&mut self, key: &str, nontrivial: bool) {
        self.evals += 1;
        if nontrivial {
            self.hashes.insert(hash_str(key));
        }
    }

    pub fn eval_hash(&mut self, h: u64, nontrivial: bool) {
        self.evals += 1;
        if nontrivial {
            self.hashes.insert(h);
        }
    }

    pub fn sample(&mut self, text: &str) {
        if self.samples_emitted < self.max_samples {
            self.samples_emitted += 1;
            let mut t = text.to_string();
            if t.len() > 1500 {
                let mut cut = 1500;
                while !t.is_char_boundary(cut) {
                    cut -= 1;
                }
                t.truncate(cut);
                t.push_str("…");
            }
            self.emit(&format!("{{\"t\":\"sample\",\"text\":{}}}", json_str(&t)));
        }
    }

    pub fn want_sample(&self) -> bool {
        self.samples_emitted < self.max_samples
    }

    pub fn violation(&mut self, kind: &str, sig: &str, detail: &str, witness: &str) {
        self.case_violated = true;
        self.viol_count += 1;
        let n = self.viol_by_sig.entry(sig.to_string()).or_insert(0);
        *n += 1;
        if *n > 3 || self.viol_count > 60 {
            self.count("violations_suppressed_duplicates");
            return;
        }
        let mut d = detail.to_string();
        if d.len() > 6000 {
            let mut cut = 6000;
            while !d.is_char_boundary(cut) {
                cut -= 1;
            }
            d.truncate(cut);
            d.push_str("…");
        }
        let mut w = witness.to_string();
        if w.len() > 20000 {
            let mut cut = 20000;
            while !w.is_char_boundary(cut) {
                cut -= 1;
            }
            w.truncate(cut);
            w.push_str("…");
        }
        let line = format!(
            "{{\"t\":\"viol\",\"prop\":{},\"case\":{},\"shard\":{},\"nshards\":{},\"seed\":{},\"flavour\":{},\"kind\":{},\"sig\":{},\"detail\":{},\"witness\":{}}}",
            json_str(&self.prop),
            self.case,
            self.shard,
            self.nshards,
            self.seed,
            json_str(if flavour() == Flavour::Chk { "chk" } else { "ship" }),
            json_str(kind),
            json_str(sig),
            json_str(&d),
            json_str(&w)
        );
        self.emit(&line);
    }

    pub fn emit(&self, line: &str) {
        let out = std::io::stdout();
        let mut l = out.lock();
        let _ = writeln!(l, "{}", line);
        let _ = l.flush();
    }

    pub fn finish(&self, next_case: u64, complete: bool) {
        let mut s = String::new();
        s.push_str("{\"t\":\"done\"");
        s.push_str(&format!(",\"evals\":{}", self.evals));
        s.push_str(&format!(",\"distinct_local\":{}", self.hashes.len()));
        s.push_str(&format!(
            ",\"distinct_by_construction\":{}",
            self.distinct_by_construction
        ));
        s.push_str(&format!(",\"rule\":{}", json_str(&self.rule)));
        s.push_str(&format!(",\"next\":{}", next_case));
        s.push_str(&format!(",\"complete\":{}", complete));
        s.push_str(&format!(",\"violations\":{}", self.viol_count));
        s.push_str(",\"counters\":{");
        let mut first = true;
        for (k, v) in &self.counters {
            if !first {
                s.push(',');
            }
            first = false;
            s.push_str(&format!("{}:{}", json_str(k), v));
        }
        s.push_str("},\"maxes\":{");
        first = true;
        for (k, v) in &self.maxes {
            if !first {
                s.push(',');
            }
            first = false;
            s.push_str(&format!("{}:{}", json_str(k), v));
        }
        s.push_str("},\"sets\":{");
        first = true;
        for (k, v) in &self.sets {
            if !first {
                s.push(',');
            }
            first = false;
            s.push_str(&format!("{}:[", json_str(k)));
            let mut f2 = true;
            for m in v {
                if !f2 {
                    s.push(',');
                }
                f2 = false;
                s.push_str(&json_str(m));
            }
            s.push(']');
        }
        s.push_str("}}");
        self.emit(&s);
    }

    pub fn write_hashes(&self, path: &str) {
        let mut buf: Vec<u8> = Vec::with_capacity(self.hashes.len() * 8);
        for h in &self.hashes {
            buf.extend_from_slice(&h.to_le_bytes());
        }
        if let Ok(mut f) = std::fs::OpenOptions::new()
            .create(true)
            .append(true)
            .open(path)
        {
            let _ = f.write_all(&buf);
        }
    }
}
