//! Conversions between the model's values and the implementation's public `Val`.
use crate::model::val::V;
use basic::mach::Val;

pub fn to_val(v: &V) -> Val {
    match v {
        V::I(n) => Val::Integer(*n),
        V::S(x) => Val::Single(*x),
        V::D(x) => Val::Double(*x),
        V::Str(s) => Val::String(s.as_str().into()),
    }
}

pub fn from_val(v: &Val) -> Option<V> {
    match v {
        Val::Integer(n) => Some(V::I(*n)),
        Val::Single(x) => Some(V::S(*x)),
        Val::Double(x) => Some(V::D(*x)),
        Val::String(s) => Some(V::Str(s.to_string())),
        Val::Return(_) | Val::Next(_) => None,
    }
}

pub fn show_val(v: &Val) -> String {
    match from_val(v) {
        Some(m) => m.show(),
        None => format!("{:?}", v),
    }
}
