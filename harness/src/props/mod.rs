//! One workload + checker per property.
use crate::Prop;

pub mod c08;

pub fn make(id: &str) -> Option<Box<dyn Prop>> {
    match id {
        "C08" => Some(Box::new(c08::C08::new())),
        _ => None,
    }
}
