//! One workload + checker per property.
use crate::Prop;

pub mod c08;
pub mod diag;
pub mod exprs;
pub mod input;
pub mod layout;
pub mod meta;
pub mod modelprog;
pub mod renum;
pub mod robust;
pub mod store;
pub mod strings;
pub mod vars;

pub fn make(id: &str) -> Option<Box<dyn Prop>> {
    match id {
        "C01" => Some(Box::new(modelprog::ModelProg { id: "C01" })),
        "C09" => Some(Box::new(modelprog::ModelProg { id: "C09" })),
        "C10" => Some(Box::new(modelprog::ModelProg { id: "C10" })),
        "C04" | "C12" | "C13" | "C16" | "C20" => {
            let sid: &'static str = match id { "C04" => "C04", "C12" => "C12", "C13" => "C13", "C16" => "C16", _ => "C20" };
            Some(Box::new(meta::Meta { id: sid }))
        }
        "C15" => Some(Box::new(store::C15)),
        "C05" => Some(Box::new(store::C05)),
        "C03" => Some(Box::new(robust::C03)),
        "C18" => Some(Box::new(robust::C18)),
        "C14" => Some(Box::new(renum::C14)),
        "C19" => Some(Box::new(diag::C19)),
        "C07" => Some(Box::new(strings::C07)),
        "C02" => Some(Box::new(exprs::C02)),
        "C11" => Some(Box::new(layout::C11)),
        "C17" => Some(Box::new(input::C17)),
        "C06" => Some(Box::new(vars::C06)),
        "C08" => Some(Box::new(c08::C08::new())),
        _ => None,
    }
}
