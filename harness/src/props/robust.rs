//! C03 — no input can crash or wedge the interpreter.
//! C18 — memory pools are bounded; completed statements leave nothing behind.

use crate::ctx::{Ctx, Tier};
use crate::drive::{transcript, Ev, Norm, Session, Stop};
use crate::gen::{self, Opts};
use crate::mon;
use crate::rng::Rng;
use crate::Prop;
use basic::mach::Listing;

pub struct C03;

const WORDS: [&str; 96] = [
    "PRINT", "?", "LET", "IF", "THEN", "ELSE", "FOR", "TO", "STEP", "NEXT", "WHILE", "WEND", "GOTO", "GO", "SUB",
    "GOSUB", "RETURN", "ON", "END", "STOP", "CONT", "RUN", "LIST", "NEW", "CLEAR", "DELETE", "RENUM", "LOAD", "SAVE",
    "INPUT", "READ", "DATA", "RESTORE", "DIM", "ERASE", "DEF", "FN", "FNA", "DEFINT", "DEFSTR", "DEFSNG", "DEFDBL",
    "SWAP", "TRON", "TROFF", "REM", "'", "CLS", "MID$", "LEFT$", "RIGHT$", "INSTR", "LEN", "CHR$", "ASC", "STR$",
    "VAL", "STRING$", "HEX$", "OCT$", "TAB", "SPC", "POS", "INKEY$", "RND", "ABS", "INT", "FIX", "CINT", "CSNG",
    "CDBL", "SGN", "SQR", "EXP", "LOG", "SIN", "COS", "TAN", "ATN", "DATE$", "TIME$", "AND", "OR", "XOR", "NOT",
    "IMP", "EQV", "MOD", "A", "B$", "C%", "D#", "E!", "X1", "F(", "TIME$",
];
const PUNCT: [&str; 40] = [
    "(", ")", ",", ";", ":", "=", "<", ">", "<=", ">=", "<>", "+", "-", "*", "/", "\\", "^", "\"", "\"AB\"", " ", "  ",
    "0", "1", "9", "10", "32767", "32768", "-32768", "65529", "65530", "1E", "1E38", "1D308", "1E-40", ".5", "&H", "&HFFFF",
    "&O7", "&", "é",
];
const WEIRD: [&str; 14] = ["\t", "\u{0}", "\u{7f}", "\u{80}", "\u{a0}", "\u{2028}", "😀", "\u{feff}", "ß", "İ", "ǆ", "\r", "\u{1b}[2J", "\\"];

fn soup(rng: &mut Rng) -> String {
    let mut s = String::new();
    if rng.coin() {
        s.push_str(&format!("{} ", rng.pick(&[0u32, 1, 10, 20, 100, 65529, 65530, 99999])));
    }
    let n = rng.range(1, 14);
    for _ in 0..n {
        match rng.usize(10) {
            0..=4 => s.push_str(*rng.pick(&WORDS[..])),
            5..=7 => s.push_str(*rng.pick(&PUNCT[..])),
            8 => s.push_str(*rng.pick(&WEIRD[..])),
            _ => s.push(char::from_u32(rng.below(0x250) as u32 + 1).unwrap_or('x')),
        }
        if rng.chance(1, 3) {
            s.push(' ');
        }
    }
    s
}

fn long_line(rng: &mut Rng) -> String {
    let unit = *rng.pick(&[
        "(", "-", "NOT ", "1+", "A(", "\"", "FNA(", "IF 1 THEN ", "9", "1E", ":", "é", "ELSE ", "A$+", "-(", "((1))+", " ", "\t", "  \t", ",", ";", "&H", "REM", "?",
        ".", "1.", "=<", "GO TO", "<> ", "'", "A$(", "MID$(", "0",
    ]);
    let head = *rng.pick(&["PRINT ", "10 PRINT ", "A=", "10 ", "", "20 DATA ", "INPUT ", "10", "65529 ", " ", "PRINT \"X\"", "IF A THEN", "FOR I=1 TO"]);
    let n = rng.range(1, 1100) as usize / unit.len().max(1);
    let mut s = String::from(head);
    for _ in 0..n {
        s.push_str(unit);
    }
    if s.len() > 1030 {
        let mut cut = 1030 - rng.usize(12);
        while !s.is_char_boundary(cut) {
            cut -= 1;
        }
        s.truncate(cut);
    }
    s
}

fn mutate(rng: &mut Rng, l: &str) -> String {
    let mut chars: Vec<char> = l.chars().collect();
    for _ in 0..rng.range(1, 4) {
        if chars.is_empty() {
            break;
        }
        let i = rng.usize(chars.len());
        match rng.usize(4) {
            0 => {
                chars.remove(i);
            }
            1 => {
                for (k, c) in rng.pick(&PUNCT[..]).chars().enumerate() {
                    chars.insert(i + k, c);
                }
            }
            2 => {
                for (k, c) in rng.pick(&WORDS[..]).chars().enumerate() {
                    chars.insert(i + k, c);
                }
            }
            _ => {
                let j = rng.usize(chars.len());
                chars.swap(i, j);
            }
        }
    }
    chars.into_iter().collect()
}

const FUEL: u64 = 3_000_000;
/// the big execute() quantum; under Miri everything is scaled down
const QBIG: usize = if cfg!(miri) { 120 } else { 5000 };

impl Prop for C03 {
    fn cases(&self, tier: Tier) -> u64 {
        match tier {
            Tier::Quick => 15_000,
            Tier::Thorough => 400_000,
        }
    }

    fn cpu_budget_s(&self) -> u64 {
        15
    }

    fn rule(&self) -> &'static str {
        "Each case is one session of 8..60 API calls chosen at random: enter() of token soup (keywords, functions, \
         numbers at type limits, dangling exponents, radix prefixes, quotes, control and multi-byte characters), of \
         lines up to and beyond the 1024-byte limit made of one repeated unit (deep nesting), of generated program \
         lines and mutations of them, of commands (RUN, LIST, CONT, NEW, CLEAR, RENUM, DELETE, LOAD, SAVE) and of \
         INPUT / INKEY$ replies when the interpreter asks; execute() with quanta 0,1,2,17,5000; interrupt(); \
         get_listing() snapshots held across later edits; set_listing(). Monitors: catch_unwind around every call \
         (panic = violation, with location), loop-fuel hooks in the scanner and unwind loops (3,000,000 iterations \
         per call), per-case CPU watchdog, abort journal. At the end: one interrupt(), at most 64 execute() calls to \
         reach the prompt, then PRINT 7*6 must print 42. Runs in two builds: release-like and overflow-checked. \
         Distinct = hash of the call sequence; non-trivial = the session made at least 8 calls and produced at least \
         one error event and one print event."
    }

    fn run_case(&mut self, idx: u64, rng: &mut Rng, ctx: &mut Ctx) {
        if idx % 12 == 11 && !cfg!(miri) {
            return self.edge_case(rng, ctx);
        }
        let o = Opts { data: true, func: true, tron: rng.coin(), stop: true, max_lines: 24, input: true, frac: rng.coin(), strings: rng.coin(), arrays: rng.coin() };
        let p = gen::generate(rng, o);
        let plines = gen::render_spelled(&p, rng.next_u64());
        let mut s = Session::new();
        let mut script: Vec<String> = vec![];
        let n = if cfg!(miri) { rng.range(5, 14) } else { rng.range(8, 60) };
        let mut waiting_input = false;
        // calling protocol (src/term/mod.rs, debug_assert in Runtime::enter): enter() only after
        // execute() returned Stopped, Input or Inkey
        let mut ready = false;
        macro_rules! guarded {
            ($what:expr, $body:expr) => {{
                script.push($what);
                mon::journal(&script.join("\n"));
                basic::mach::verif::set_fuel(FUEL);
                let r = $body;
                mon::unlimited_fuel();
                r
            }};
        }
        for _ in 0..n {
            let action = rng.usize(20);
            if action <= 9 && !ready {
                // get to a point where a line may be entered: run, interrupting once if it does not stop
                let mut got = false;
                for round in 0..2 {
                    for _ in 0..40 {
                        match guarded!(format!("execute {}", QBIG), s.step_q(QBIG)) {
                            Some(Stop::Stopped) | Some(Stop::Input(..)) | Some(Stop::Inkey) => {
                                got = true;
                                break;
                            }
                            _ => {}
                        }
                    }
                    if got {
                        break;
                    }
                    if round == 0 {
                        guarded!("interrupt".to_string(), s.interrupt());
                    }
                }
                if !got {
                    ctx.violation(
                        "not-at-prompt",
                        "robust:not-at-prompt-mid",
                        "40 slices, one interrupt and 40 more slices did not bring the interpreter to a prompt",
                        &script.join("\n"),
                    );
                    return;
                }
                ready = true;
            }
            if action <= 9 {
                ready = false;
            }
            match action {
                0..=2 => {
                    let l = soup(rng);
                    guarded!(format!("enter {:?}", l), s.enter(&l));
                }
                3 => {
                    let l = long_line(rng);
                    guarded!(format!("enter {:?}", l), s.enter(&l));
                }
                4 | 5 => {
                    let l = rng.pick(&plines).clone();
                    guarded!(format!("enter {:?}", l), s.enter(&l));
                }
                6 | 7 => {
                    let base = rng.pick(&plines).clone();
                    let l = mutate(rng, base.as_str());
                    guarded!(format!("enter {:?}", l), s.enter(&l));
                }
                8 | 9 => {
                    let c = match rng.usize(16) {
                        0 | 1 | 2 => "RUN".to_string(),
                        3 => "LIST".to_string(),
                        4 => "CONT".to_string(),
                        5 => "NEW".to_string(),
                        6 => "CLEAR".to_string(),
                        7 => format!("RENUM {},{},{}", rng.range(0, 70000), rng.range(0, 300), rng.range(0, 70000)),
                        8 => format!("DELETE {}-{}", rng.range(0, 300), rng.range(0, 70000)),
                        9 => "SAVE \"F\"".to_string(),
                        10 => "LOAD \"F\"".to_string(),
                        11 => "RUN \"F\"".to_string(),
                        12 => rng.pick(&["INPUT A,B$,C%", "INPUT A$", "INPUT A,B$", "INPUT \"p\";X$(1)", "INPUT ,A$,B$", "INPUT C%,D#,E$"]).to_string(),
                        13 => "A$=INKEY$:PRINT A$".to_string(),
                        14 => format!("RUN {}", rng.range(0, 300)),
                        _ => "PRINT DATE$;TIME$;RND(1);1/0;-32768\\-1;ABS(-32768%)".to_string(),
                    };
                    guarded!(format!("enter {:?}", c), s.enter(&c));
                }
                10..=14 => {
                    let q = *rng.pick(&[0usize, 1, 2, 17, QBIG, QBIG]);
                    let k = rng.range(1, 12);
                    for _ in 0..k {
                        let st = guarded!(format!("execute {}", q), s.step_q(q));
                        match st {
                            Some(Stop::Input(..)) | Some(Stop::Inkey) => {
                                waiting_input = true;
                                break;
                            }
                            Some(Stop::Stopped) => {
                                ready = true;
                                break;
                            }
                            _ => ready = false,
                        }
                    }
                    if waiting_input && rng.chance(1, 4) {
                        // break at the prompt / key wait, then continue into it
                        waiting_input = false;
                        guarded!("interrupt".to_string(), s.interrupt());
                        let mut at_prompt = false;
                        for _ in 0..8 {
                            if let Some(Stop::Stopped) = guarded!(format!("execute {}", QBIG), s.step_q(QBIG)) {
                                at_prompt = true;
                                break;
                            }
                        }
                        if at_prompt {
                            guarded!("enter \"CONT\"".to_string(), s.enter("CONT"));
                        }
                        ready = false;
                    }
                    if waiting_input {
                        waiting_input = false;
                        let r = match rng.usize(10) {
                            0 => "1,2,3".to_string(),
                            1 => "\"a,b\",\"".to_string(),
                            2 => String::new(),
                            6 => rng.pick(&["\"", "\"\"", "\"\"\"", " \" ", "a,\"", "\",b", "1,\",3", "\"é", "é\"", ",", ",,", " , , ", "1,\"", "1,2,\"", "x, \" ", "1,2,\"\""]).to_string(),
                            7 => format!("{},{},{}", rng.pick(&["\"", "1", "x", "", "&", "&é"]), rng.pick(&["\"", "\"\"", "2", " ", "&H"]), rng.pick(&["\"", "3", "\"z\"", "&HD", "&"])),
                            8 => rng.pick(&["&", "&H", "&é", "&h", "1,&", "&,&,&", "\u{a0}1", "\u{3000}"]).to_string(),
                            3 => soup(rng),
                            4 => long_line(rng),
                            _ => "1,x,1E99".to_string(),
                        };
                        guarded!(format!("enter {:?}", r), s.enter(&r));
                    }
                }
                15 => {
                    guarded!("interrupt".to_string(), s.interrupt());
                    ready = false;
                }
                16 | 17 => {
                    let l = guarded!("get_listing (held)".to_string(), s.rt.get_listing());
                    s.held_listings.push(l);
                    if s.held_listings.len() > 3 {
                        s.held_listings.remove(0);
                    }
                }
                18 => {
                    let mut listing = Listing::default();
                    for l in plines.iter().take(rng.usize(10)) {
                        let _ = listing.load_str(l);
                    }
                    let run = rng.coin();
                    guarded!(format!("set_listing ({} lines, run={})", listing.lines().count(), run), s.rt.set_listing(listing, run));
                    ready = false;
                }
                _ => {
                    // snapshot line access the way the terminal's TAB edit does
                    let l = s.rt.get_listing();
                    let k = rng.below(70000) as usize;
                    guarded!(format!("get_listing().line({})", k), {
                        let _ = l.line(k);
                    });
                }
            }
        }
        finish_session(&mut s, &mut script, ctx);
    }
}

macro_rules! guard {
    ($script:expr, $what:expr, $body:expr) => {{
        $script.push($what);
        mon::journal(&$script.join("\n"));
        basic::mach::verif::set_fuel(FUEL);
        let r = $body;
        mon::unlimited_fuel();
        r
    }};
}

/// Common end of every C03 session: one interrupt, the prompt must be reached, the next line must work.
fn finish_session(s: &mut Session, script: &mut Vec<String>, ctx: &mut Ctx) {
    guard!(script, "interrupt".to_string(), s.interrupt());
    let mut reached = false;
    for _ in 0..64 {
        let st = guard!(script, format!("execute {}", QBIG), s.step_q(QBIG));
        match st {
            Some(Stop::Stopped) => {
                reached = true;
                break;
            }
            Some(Stop::Input(..)) | Some(Stop::Inkey) => {
                guard!(script, "interrupt".to_string(), s.interrupt());
            }
            _ => {}
        }
    }
    let text = script.join("\n");
    let errs = s.log.iter().filter(|e| matches!(e, Ev::Error(..))).count();
    let prints = s.log.iter().filter(|e| matches!(e, Ev::Print(..))).count();
    ctx.eval(&text, script.len() >= 8 && errs > 0 && prints > 0);
    ctx.add("api_calls", script.len() as u64);
    ctx.add("events_observed", s.log.len() as u64);
    ctx.add("error_events", errs as u64);
    for e in s.log.iter() {
        if let Ev::Error(d, _, _) = e {
            ctx.cover("error_messages_seen", &crate::drive::error_name(d));
        }
    }
    if !reached {
        ctx.violation(
            "not-at-prompt",
            "robust:not-at-prompt",
            &format!("after one interrupt and 64 execute(5000) calls the interpreter is not stopped at the prompt (state {})", s.rt.verif_probe().state),
            &text,
        );
        return;
    }
    let mark = s.mark();
    guard!(script, "enter \"PRINT 7*6\"".to_string(), s.enter("PRINT 7*6"));
    let mut ok = false;
    for _ in 0..16 {
        if let Some(Stop::Stopped) = guard!(script, format!("execute {}", QBIG), s.step_q(QBIG)) {
            ok = true;
            break;
        }
    }
    let t = transcript(s.events_since(mark), Norm::STD);
    if !ok || !t.contains(" 42 ") {
        ctx.violation(
            "next-line-not-accepted",
            "robust:next-line",
            &format!("after the session PRINT 7*6 gave {:?}", t),
            &script.join("\n"),
        );
    }
    if ctx.want_sample() {
        ctx.sample(&text);
    }
}

impl C03 {
    /// A break while an INPUT reply is being assigned (or at the prompt / key wait), then a direct
    /// statement that leaves something on the value stack or clears it, then CONT.
    fn mid_input_case(&self, rng: &mut Rng, ctx: &mut Ctx) {
        let lines = [
            "10 INPUT \"N\";A,B$,C%",
            "15 K$=INKEY$",
            "20 PRINT A;B$;C%",
            "30 RETURN",
            "40 STOP",
            "50 INPUT D:GOTO 20",
        ];
        let mut s = Session::new();
        let mut script: Vec<String> = vec![];
        for _ in 0..4 {
            guard!(script, format!("execute {}", QBIG), s.step_q(QBIG));
        }
        for l in &lines {
            guard!(script, format!("enter {:?}", l), s.enter(l));
            for _ in 0..4 {
                if guard!(script, format!("execute {}", QBIG), s.step_q(QBIG)) == Some(Stop::Stopped) {
                    break;
                }
            }
        }
        let start = *rng.pick(&["RUN", "RUN 15", "RUN 50"]);
        guard!(script, format!("enter {:?}", start), s.enter(start));
        let mut at_prompt = false;
        for _ in 0..20 {
            match guard!(script, "execute 1".to_string(), s.step_q(1)) {
                Some(Stop::Input(..)) | Some(Stop::Inkey) => {
                    at_prompt = true;
                    break;
                }
                Some(Stop::Stopped) => break,
                _ => {}
            }
        }
        if at_prompt && rng.chance(3, 4) {
            let r = *rng.pick(&["1,x,3", "1,2,3", "7", "", "1,\"a,b\",3"]);
            guard!(script, format!("enter {:?}", r), s.enter(r));
            // stop somewhere inside the assignment of the fields
            for _ in 0..rng.range(0, 7) {
                guard!(script, "execute 1".to_string(), s.step_q(1));
            }
        }
        guard!(script, "interrupt".to_string(), s.interrupt());
        let mut stopped = false;
        for _ in 0..8 {
            if guard!(script, format!("execute {}", QBIG), s.step_q(QBIG)) == Some(Stop::Stopped) {
                stopped = true;
                break;
            }
        }
        if stopped {
            let d = *rng.pick(&[
                "FOR I=1 TO 3", "GOSUB 40", "ON 1 GOSUB 40", "A$=\"X\"", "CLEAR", "DIM Q(2)", "PRINT A;B$", "NEXT", "RETURN", "GOSUB 30",
                "WHILE 0:WEND", "DEF FNA(X)=X", "PRINT 1/0", "INPUT Z", "Z$=INKEY$", "GOTO 20", "RESTORE", "READ Q",
            ]);
            guard!(script, format!("enter {:?}", d), s.enter(d));
            let mut ok = false;
            for _ in 0..8 {
                match guard!(script, format!("execute {}", QBIG), s.step_q(QBIG)) {
                    Some(Stop::Stopped) => {
                        ok = true;
                        break;
                    }
                    Some(Stop::Input(..)) | Some(Stop::Inkey) => {
                        guard!(script, "enter \"5\"".to_string(), s.enter("5"));
                    }
                    _ => {}
                }
            }
            if ok {
                guard!(script, "enter \"CONT\"".to_string(), s.enter("CONT"));
                for _ in 0..12 {
                    match guard!(script, format!("execute {}", QBIG), s.step_q(QBIG)) {
                        Some(Stop::Stopped) => break,
                        Some(Stop::Input(..)) | Some(Stop::Inkey) => {
                            guard!(script, "enter \"1,2,3\"".to_string(), s.enter("1,2,3"));
                        }
                        _ => {}
                    }
                }
            }
            ctx.cover("direct_statements_between_break_and_cont", d);
        }
        ctx.count("mid_input_break_sessions");
        finish_session(&mut s, &mut script, ctx);
    }
}

/// Statements over a string temporary T of up to ~80,000 characters (a sum of 255-character strings).
const BIG_TEMP_STATEMENTS: [&str; 18] = [
    "PRINT LEN(T)",
    "PRINT INSTR(T,\"Z\")",
    "PRINT INSTR(300,T,\"é\")",
    "B$=LEFT$(T,255):PRINT LEN(B$)",
    "B$=RIGHT$(T,3):PRINT B$",
    "PRINT LEN(MID$(T,33000))",
    "PRINT LEN(MID$(T,2,33000))",
    "PRINT T;:PRINT POS(0)",
    "PRINT T;TAB(10);1",
    "PRINT ASC(T)",
    "B$=T",
    "PRINT T=T",
    "PRINT VAL(T)",
    "IF T<T+\"A\" THEN PRINT 1",
    "MID$(A$,2)=T:PRINT LEN(A$)",
    "PRINT LEN(STR$(LEN(T)))",
    "SWAP A$,B$:B$=T",
    "PRINT LEN(LEFT$(T,40000))",
];

impl C03 {
    /// Expression temporaries far larger than anything a variable can hold: every use must end in a
    /// value or a BASIC error.
    fn big_temp_case(&self, rng: &mut Rng, ctx: &mut Ctx) {
        let stmt = *rng.pick(&BIG_TEMP_STATEMENTS[..]);
        // VAL tries ever shorter prefixes (quadratic): keep its operand moderate, slowness is not a verdict here
        let terms = if stmt.contains("VAL(") { rng.range(2, 30) as usize } else { rng.range(2, 300) as usize };
        let unit = *rng.pick(&["é", "x", "→", "Z"]);
        let mut t = String::new();
        for i in 0..terms {
            if i > 0 {
                t.push('+');
            }
            t.push_str("A$");
        }
        let line20 = format!("20 {}", stmt.replace('T', &format!("({})", t)).replace("PRIN(", "PRINT ("));
        // T also occurs in keywords (PRINT, THEN, STR$, LEFT$, RIGHT$, INSTR, TAB): build by hand instead
        let line20 = {
            let mut o = String::from("20 ");
            let b: Vec<char> = stmt.chars().collect();
            for (i, c) in b.iter().enumerate() {
                let prev_alpha = i > 0 && (b[i - 1].is_ascii_alphanumeric() || b[i - 1] == '$');
                let next_alpha = i + 1 < b.len() && (b[i + 1].is_ascii_alphanumeric() || b[i + 1] == '$');
                if *c == 'T' && !prev_alpha && !next_alpha {
                    o.push('(');
                    o.push_str(&t);
                    o.push(')');
                } else {
                    o.push(*c);
                }
            }
            let _ = line20;
            o
        };
        if line20.len() > 1020 {
            ctx.evals += 1;
            return;
        }
        let lines = vec![format!("10 A$=STRING$(255,\"{}\"):B$=\"q\"", unit), line20, "30 PRINT \"END\"".to_string()];
        let mut s = Session::new();
        let mut script: Vec<String> = vec![];
        for _ in 0..4 {
            guard!(script, format!("execute {}", QBIG), s.step_q(QBIG));
        }
        for l in &lines {
            guard!(script, format!("enter {:?}", l), s.enter(l));
            for _ in 0..4 {
                if guard!(script, format!("execute {}", QBIG), s.step_q(QBIG)) == Some(Stop::Stopped) {
                    break;
                }
            }
        }
        guard!(script, "enter \"RUN\"".to_string(), s.enter("RUN"));
        for _ in 0..400 {
            if guard!(script, format!("execute {}", QBIG), s.step_q(QBIG)) == Some(Stop::Stopped) {
                break;
            }
        }
        // the events of this session can be huge (PRINT T): keep the log small for the common tail
        for e in s.log.iter_mut() {
            if let Ev::Print(p) = e {
                if p.len() > 300 {
                    p.truncate(p.char_indices().nth(100).map(|(i, _)| i).unwrap_or(0));
                }
            }
        }
        ctx.cover("statements_over_huge_string_temporaries", stmt);
        ctx.max("largest_string_temporary_characters", (terms * 255) as u64);
        finish_session(&mut s, &mut script, ctx);
    }

    /// A program around the size of the 64K code / DATA pool (a little below, at, beyond), then ordinary
    /// commands: everything must stay a BASIC error and the prompt must keep working.
    fn oversized_case(&self, rng: &mut Rng, ctx: &mut Ctx) {
        let data = rng.coin();
        let per_line = 480usize; // cells per ~1000-byte line
        let nlines = (65_535 / per_line) as i64 + rng.range(-3, 4);
        let mut s = Session::new();
        let mut script: Vec<String> = vec![];
        for _ in 0..4 {
            guard!(script, format!("execute {}", QBIG), s.step_q(QBIG));
        }
        for i in 0..nlines.max(1) {
            let mut l = format!("{} {}", i + 1, if data { "DATA " } else { "A=" });
            let mut first = true;
            let width = 900 + rng.usize(100);
            while l.len() < width {
                if !first {
                    l.push_str(if data { "," } else { "+" });
                }
                first = false;
                l.push('1');
            }
            // the journal would be huge: name the shape instead of every line
            script.push(format!("enter <line {} of {} like {:?}..., {} bytes>", i + 1, nlines, &l[..24], l.len()));
            basic::mach::verif::set_fuel(FUEL);
            s.enter(&l);
            mon::unlimited_fuel();
            for _ in 0..4 {
                if s.step_q(QBIG) == Some(Stop::Stopped) {
                    break;
                }
            }
        }
        mon::journal(&script.join("\n"));
        for _ in 0..rng.range(2, 6) {
            let c = *rng.pick(&["PRINT 1", "RUN", "LIST 1-1", "NEW", "DELETE 2-", "CLEAR", "SAVE \"F\"", "RENUM", "A=1:PRINT A", "GOTO 1", "1", "2 PRINT 2", "READ A:PRINT A", "CONT"]);
            guard!(script, format!("enter {:?}", c), s.enter(c));
            for _ in 0..400 {
                if guard!(script, format!("execute {}", QBIG), s.step_q(QBIG)) == Some(Stop::Stopped) {
                    break;
                }
            }
        }
        ctx.count("oversized_program_sessions");
        finish_session(&mut s, &mut script, ctx);
    }
}

/// Statements tried with the value stack a few cells below its limit.
const EDGE_STATEMENTS: [&str; 24] = [
    "INPUT A,B,C,D,E",
    "INPUT \"P\";A$",
    "INPUT A",
    "K$=INKEY$",
    "PRINT FNA(1,2,3)",
    "GOSUB 40",
    "FOR J=1 TO 2:NEXT",
    "READ A,B,C",
    "A$=\"X\"+\"Y\":PRINT LEN(A$)",
    "PRINT 1+2*3-4",
    "DIM Q(3,3):Q(1,2)=5:PRINT Q(1,2)",
    "SWAP A,B",
    "MID$(A$,1)=\"Z\"",
    "PRINT INSTR(1,\"ABC\",\"C\")",
    "ON 2 GOSUB 40,40",
    "WHILE W<2:W=W+1:WEND",
    "PRINT POS(0);TAB(5);SPC(2)",
    "DEFINT A-C",
    "RESTORE 5",
    "LIST 5",
    "PRINT MID$(\"ABCDE\",2,2)",
    "PRINT RND(1)>=0",
    "STOP",
    "PRINT 1,2,3,4",
];

impl C03 {
    /// Every place that takes a number -- function arguments, subscripts, DIM bounds, ON selectors, FOR bounds and
    /// steps, line-number operands, TAB / SPC -- fed the edges of each numeric type, directly and through variables
    /// of every type. Whatever the statement does, it must be a value or a BASIC error and the prompt must return.
    fn boundary_args_case(&self, rng: &mut Rng, ctx: &mut Ctx) {
        const TEMPLATES: [&str; 52] = [
            "PRINT TAB({});\"X\"", "PRINT SPC({});\"X\"", "PRINT STRING$({},\"ab\")", "PRINT STRING$(3,{})", "PRINT STRING$({},{})",
            "PRINT LEFT$(\"héllo\",{})", "PRINT RIGHT$(\"héllo\",{})", "PRINT MID$(\"héllo\",{})", "PRINT MID$(\"héllo\",{},{})", "PRINT MID$(\"héllo\",2,{})",
            "A$=\"héllo\":MID$(A$,{})=\"xy\":PRINT A$", "A$=\"héllo\":MID$(A$,{},{})=\"xyz\":PRINT A$", "PRINT CHR$({})", "PRINT HEX$({});OCT$({})", "PRINT INSTR({},\"banana\",\"an\")",
            "DIM Q({}):Q({})=1:PRINT Q({})", "DIM R(3,{}):R(1,{})=2:PRINT R(1,{})", "Q(3)=4:PRINT Q({})", "ERASE Q:DIM Q({},{})", "ON {} GOTO 10,20",
            "ON {} GOSUB 10", "FOR I={} TO {}:NEXT:PRINT I", "FOR I%={} TO {} STEP {}:NEXT:PRINT I%", "FOR I=1 TO 3 STEP {}:PRINT I;:NEXT", "PRINT POS({})",
            "PRINT CINT({});FIX({});INT({})", "PRINT {} MOD {}", "PRINT {}\\{}", "PRINT {} AND {};{} OR {};NOT {}", "PRINT -({});ABS({})",
            "LIST {}", "LIST {}-{}", "DELETE {}", "RESTORE {}", "GOTO {}",
            "RUN {}", "RENUM {},{},{}", "PRINT RND({})", "PRINT SQR({});LOG({});EXP({})", "PRINT {}^{}",
            "A%={}:PRINT A%", "PRINT STR$({});VAL(STR$({}))", "PRINT SPC({});TAB({});POS(0)", "PRINT LEN(STRING$({},65))",
            // letter ranges the wrong way round, single letters, the whole alphabet
            "DEFINT Z-A", "DEFSTR M-D:PRINT 1", "DEFDBL B-A", "DEFSNG Y-C:Y={}", "DEFINT A-A:DEFINT Z-Z:A={}", "DEFSTR A-Z:A=\"x\":PRINT A",
            "A$=\"HELLO\":MID$(A$,2,{})=\"xyz\":PRINT A$", "ERASE Q:ERASE Q",
        ];
        const VALUES: [&str; 34] = [
            "-32768", "-32767-1", "-32767", "-256", "-255", "-1", "-0.5", "0", "0.5", "1", "2.99999999#", "254", "255", "256", "257", "32766", "32767", "32767.5",
            "32767.99#", "32768", "40000", "65529", "65530", "65535", "65536", "1E10", "-1E10", "1D300", "1/0", "0/0", "&H7FFF", "&HFFFF", "-&H7FFF-1", "3.4E38*10",
        ];
        let mut s = Session::new();
        let mut script: Vec<String> = vec![];
        s.drain(8);
        for l in ["10 PRINT \"T\";:RETURN", "20 PRINT \"U\":END", "30 DATA 1,2"] {
            s.command(l, 8);
        }
        for _ in 0..rng.range(6, 14) {
            let t = *rng.pick(&TEMPLATES);
            let through_var = rng.chance(1, 3);
            let mut st = String::new();
            let mut pre = String::new();
            let mut k = 0;
            let mut rest = t;
            while let Some(i) = rest.find("{}") {
                st.push_str(&rest[..i]);
                rest = &rest[i + 2..];
                let v = *rng.pick(&VALUES);
                if through_var && !t.starts_with("LIST") && !t.starts_with("DELETE") && !t.starts_with("RESTORE") && !t.starts_with("GOTO") && !t.starts_with("RUN") && !t.starts_with("RENUM") {
                    let name = format!("V{}{}", k, rng.pick(&["%", "!", "#", ""]));
                    pre.push_str(&format!("{}={}:", name, v));
                    st.push_str(&name);
                    k += 1;
                } else {
                    st.push_str(v);
                }
            }
            st.push_str(rest);
            let line = format!("{}{}", pre, st);
            guard!(script, format!("enter {:?}", line), s.enter(&line));
            let mut at_prompt = false;
            for _ in 0..60 {
                match guard!(script, format!("execute {}", QBIG), s.step_q(QBIG)) {
                    Some(Stop::Stopped) => {
                        at_prompt = true;
                        break;
                    }
                    Some(Stop::Input(..)) | Some(Stop::Inkey) => {
                        guard!(script, "enter \"1\"".to_string(), s.enter("1"));
                    }
                    _ => {}
                }
            }
            if !at_prompt {
                // a long loop (FOR I=-1E10 TO 1E10): the user presses break; a line is only typed at the prompt
                guard!(script, "interrupt".to_string(), s.interrupt());
                for _ in 0..64 {
                    if let Some(Stop::Stopped) = guard!(script, format!("execute {}", QBIG), s.step_q(QBIG)) {
                        at_prompt = true;
                        break;
                    }
                }
                if !at_prompt {
                    break;
                }
            }
            ctx.count("boundary_argument_statements");
        }
        finish_session(&mut s, &mut script, ctx);
    }

    /// A program that stops a few opcodes short of the code pool's limit (sized through the probe), then direct
    /// statements of 1..60 opcodes that do or do not fit behind it, then more lines and commands.
    fn nearly_full_case(&self, rng: &mut Rng, ctx: &mut Ctx) {
        let mut s = Session::new();
        let mut script: Vec<String> = vec![];
        s.drain(8);
        // (on both sides of the mark: 65,433 .. 65,545 opcodes)
        let target = (65_503i64 + rng.range(-70, 42)) as usize;
        let big = |terms: usize, n: usize| -> String { format!("{} A={}", n, vec!["1"; terms.max(1)].join("+")) };
        let mut next_line = 1usize;
        let mut size = 0usize;
        for _round in 0..400 {
            let room = target.saturating_sub(size);
            if room < 4 {
                break;
            }
            // a line `A=1+1+..+1` with t terms costs about 2t opcodes
            let terms = (room / 2).min(240).saturating_sub(if room < 480 { 1 } else { 0 }).max(1);
            let l = big(terms, next_line);
            next_line += 1;
            s.enter(&l);
            s.drain(8);
            if room < 2000 || next_line % 40 == 0 {
                // measure: a direct statement compiles the program
                s.enter("Z=0");
                s.drain(400);
                let pr = s.rt.verif_probe();
                if pr.direct_address == 0 || pr.direct_address > 65_600 {
                    break;
                }
                size = pr.direct_address;
            } else {
                size += terms * 2;
            }
        }
        s.enter("Z=0");
        s.drain(400);
        let pr = s.rt.verif_probe();
        script.push(format!("<program of {} lines `n A=1+1+...`, {} opcodes; the pool's full mark is 65503>", next_line - 1, pr.direct_address));
        ctx.max("nearly_full_program_opcodes", pr.direct_address as u64);
        for _ in 0..rng.range(2, 6) {
            let c = match rng.usize(8) {
                0..=2 => format!("PRINT {}", vec!["1"; 1 + rng.usize(30)].join(";")),
                3 => format!("{} REM", 60_000 + rng.usize(9)),
                4 => format!("{} A=1+1", 60_000 + rng.usize(9)),
                5 => rng.pick(&["RUN", "GOTO 1", "LIST 1-1", "CLEAR", "CONT"]).to_string(),
                6 => format!("{}", 60_000 + rng.usize(9)),
                _ => rng.pick(&["A=1:PRINT A", "PRINT 1", "FOR I=1 TO 2:NEXT", "NEW"]).to_string(),
            };
            guard!(script, format!("enter {:?}", c), s.enter(&c));
            for _ in 0..400 {
                if guard!(script, format!("execute {}", QBIG), s.step_q(QBIG)) == Some(Stop::Stopped) {
                    break;
                }
            }
        }
        ctx.count("nearly_full_program_sessions");
        finish_session(&mut s, &mut script, ctx);
    }

    /// The value stack is filled to within a few cells of its 64K limit with abandoned FOR loops and
    /// GOSUBs, then one ordinary statement runs there; whatever happens must be a BASIC error.
    fn edge_case(&self, rng: &mut Rng, ctx: &mut Ctx) {
        if rng.chance(1, 12) {
            return if rng.coin() { self.oversized_case(rng, ctx) } else { self.nearly_full_case(rng, ctx) };
        }
        if rng.chance(1, 4) {
            return self.big_temp_case(rng, ctx);
        }
        if rng.chance(1, 3) {
            return self.boundary_args_case(rng, ctx);
        }
        if rng.chance(1, 4) {
            return self.mid_input_case(rng, ctx);
        }
        let n = 16_370 + rng.range(0, 14);
        let gosubs = rng.range(0, 3);
        let stmt = *rng.pick(&EDGE_STATEMENTS[..]);
        let mut lines: Vec<String> = vec![
            "5 DATA 1,2,3:DEF FNA(X,Y,Z)=X+Y+Z".to_string(),
            format!("10 FOR I=1 TO 2:Z=Z+1:IF Z<{} THEN 10", n),
        ];
        for g in 0..gosubs {
            lines.push(format!("{} GOSUB {}", 11 + g, 12 + g));
        }
        lines.push(format!("20 {}", stmt));
        lines.push("30 PRINT \"END\":END".to_string());
        lines.push("40 RETURN".to_string());
        let mut s = Session::new();
        let mut script: Vec<String> = vec![];
        for _ in 0..4 {
            guard!(script, format!("execute {}", QBIG), s.step_q(QBIG));
        }
        for l in &lines {
            guard!(script, format!("enter {:?}", l), s.enter(l));
            for _ in 0..4 {
                if guard!(script, format!("execute {}", QBIG), s.step_q(QBIG)) == Some(Stop::Stopped) {
                    break;
                }
            }
        }
        guard!(script, "enter \"RUN\"".to_string(), s.enter("RUN"));
        let replies = ["1,2,3,4,5", "x", "\"a", "7", "", "\"", "1,\",3,4,\""];
        let mut max_stack = 0usize;
        for round in 0..400 {
            let st = guard!(script, format!("execute {}", QBIG), s.step_q(QBIG));
            max_stack = max_stack.max(s.rt.verif_probe().stack.len());
            match st {
                Some(Stop::Stopped) => break,
                Some(Stop::Input(..)) | Some(Stop::Inkey) => {
                    if rng.chance(1, 3) {
                        guard!(script, "interrupt".to_string(), s.interrupt());
                        let mut at_prompt = false;
                        for _ in 0..8 {
                            if guard!(script, format!("execute {}", QBIG), s.step_q(QBIG)) == Some(Stop::Stopped) {
                                at_prompt = true;
                                break;
                            }
                        }
                        if at_prompt {
                            guard!(script, "enter \"CONT\"".to_string(), s.enter("CONT"));
                        }
                    } else {
                        let r = replies[(round + rng.usize(7)) % 7];
                        guard!(script, format!("enter {:?}", r), s.enter(r));
                    }
                }
                _ => {}
            }
        }
        ctx.cover("edge_statements_at_a_nearly_full_stack", stmt);
        ctx.max("edge_max_stack_depth", max_stack as u64);
        finish_session(&mut s, &mut script, ctx);
    }
}

// ------------------------------------------------------------------------------------------ C18

pub struct C18;

fn is_default(v: &basic::mach::Val) -> bool {
    use basic::mach::Val;
    match v {
        Val::String(s) => s.is_empty(),
        Val::Integer(n) => *n == 0,
        Val::Single(x) => *x == 0.0,
        Val::Double(x) => *x == 0.0,
        Val::Return(_) | Val::Next(_) => false,
    }
}

/// (name, set-up lines, loop body) — bodies that complete must leave the stack where it was.
const BODIES: [(&str, &str, &str); 22] = [
    ("ON-GOSUB-out-of-range", "", "ON 0 GOSUB 900:ON 3 GOSUB 900,900"),
    ("ON-GOSUB-taken", "", "ON 1 GOSUB 900"),
    ("ON-GOTO-out-of-range", "", "ON 5 GOTO 900"),
    ("GOSUB-RETURN", "", "GOSUB 900"),
    ("FOR-NEXT-complete", "", "FOR I=1 TO 2:NEXT"),
    ("FOR-NEXT-named-nested", "", "FOR I=1 TO 2:FOR J=1 TO 2:NEXT J,I"),
    ("FOR-abandoned-inside-subroutine", "", "GOSUB 910"),
    ("FOR-inner-abandoned-NEXT-outer", "", "FOR I=1 TO 2:FOR J=1 TO 5:IF J=2 THEN 25"),
    ("WHILE-WEND", "", "W=0:WHILE W<2:W=W+1:WEND"),
    ("IF-ELSE", "", "Y9=1-Y9:IF Y9 THEN A=1 ELSE A=2"),
    ("FN-call", "5 DEF FNA(X)=X+1", "A=FNA(FNA(1))"),
    ("FN-call-in-print", "5 DEF FNA(X,Y)=X+Y", "PRINT FNA(1,2)"),
    ("READ-RESTORE", "5 DATA 1,2,3", "READ A,B:RESTORE"),
    ("string-concat", "", "A$=\"AB\"+\"CD\":A$=\"\""),
    ("MID$-assign", "5 B$=\"HELLO\"", "MID$(B$,2,2)=\"XY\""),
    ("SWAP", "", "SWAP A,B"),
    ("DIM-ERASE", "", "DIM Q(3):Q(1)=1:ERASE Q"),
    ("array-store-default", "", "Y9=(Y9+1) MOD 11:R(Y9)=1:R(Y9)=0"),
    ("expression-error-free", "", "A=(1+2)*3-4/5^2 MOD 3"),
    ("INSTR-LEFT-RIGHT", "", "A=INSTR(\"ABC\",\"C\")+LEN(LEFT$(\"ABC\",2)+RIGHT$(\"ABC\",1))"),
    ("PRINT-TAB", "", "PRINT TAB(3);SPC(2);POS(0)"),
    ("TRON-TROFF", "", "TRON:TROFF"),
];

/// (name, program lines) — every one must end in OUT OF MEMORY and leave the session usable.
const LIMITS: [(&str, &[&str]); 7] = [
    ("runaway-GOSUB", &["10 GOSUB 10"]),
    ("runaway-FN", &["10 DEF FNA(X)=FNA(X+1)", "20 PRINT FNA(1)"]),
    ("runaway-mutual-FN", &["10 DEF FNA(X)=FNB(X)+1", "15 DEF FNB(X)=FNA(X)+1", "20 PRINT FNA(1)"]),
    ("abandoned-FOR", &["10 FOR I=1 TO 2", "20 GOTO 10"]),
    ("abandoned-ON-GOSUB-taken", &["10 ON 1 GOSUB 10"]),
    ("too-many-variables", &["10 DIM A(32000),B(32000),C(32000)", "20 FOR I=0 TO 32000:A(I)=1:B(I)=1:C(I)=1:NEXT"]),
    ("too-many-string-variables", &["10 DIM A$(32000),B$(32000),C$(32000)", "20 FOR I=0 TO 32000:A$(I)=\"X\":B$(I)=\"Y\":C$(I)=\"Z\":NEXT"]),
];

impl C18 {
    fn leak_case(&self, k: usize, rng: &mut Rng, ctx: &mut Ctx) {
        let (name, setup, body) = BODIES[k % BODIES.len()];
        let n: u64 = if ctx.tier == Tier::Thorough { 140_000 } else { 70_000 };
        let mut lines: Vec<String> = vec![];
        if !setup.is_empty() {
            lines.push(setup.to_string());
        }
        lines.push("10 Z9=0".into());
        lines.push(format!("20 {}", body));
        lines.push("25 NEXT I".into());
        if name != "FOR-inner-abandoned-NEXT-outer" {
            lines.pop();
        }
        lines.push(format!("30 Z9=Z9+1:IF Z9<{} THEN 20", n));
        lines.push("40 PRINT \"OK\";Z9:END".into());
        lines.push("900 RETURN".into());
        lines.push("910 FOR K=1 TO 3:IF K=2 THEN RETURN".into());
        lines.push("920 NEXT:RETURN".into());
        let text = lines.join("\n");
        mon::journal(&text);
        let mut s = Session::with_quantum(*rng.pick(&[997usize, 5000, 4099]));
        s.drain(8);
        for l in &lines {
            s.enter(l);
            s.drain(8);
        }
        let mut mark = s.mark();
        let live_before = crate::alloc::live();
        s.enter("RUN");
        let mut max_stack = 0usize;
        let mut max_vars = 0usize;
        let mut samples = 0u64;
        let mut stopped = false;
        for _ in 0..4_000_000u64 {
            match s.step() {
                Some(Stop::Stopped) => {
                    stopped = true;
                    break;
                }
                Some(_) => break,
                None => {}
            }
            if s.log.len() > 2000 {
                // the harness's own event log must not count as heap growth of the interpreter
                s.log.drain(..1900);
                mark = 0;
            }
            if s.calls % 7 == 0 {
                let pr = s.rt.verif_probe();
                max_stack = max_stack.max(pr.stack.len());
                max_vars = max_vars.max(pr.vars.len());
                samples += 1;
                if pr.stack.len() > 200 {
                    break;
                }
            }
        }
        ctx.eval(&text, true);
        ctx.cover("statement_forms_looped", name);
        ctx.add("probe_samples", samples);
        ctx.add("loop_iterations_driven", n);
        ctx.max("max_stack_depth_seen_in_leak_loops", max_stack as u64);
        ctx.max("max_variables_seen_in_leak_loops", max_vars as u64);
        if ctx.want_sample() {
            ctx.sample(&format!("{}\n(max stack depth sampled: {}, {} probe samples)", text, max_stack, samples));
        }
        let t = transcript(s.events_since(mark), Norm::STD);
        s.log.clear();
        s.log.shrink_to_fit();
        let live_after = crate::alloc::live();
        ctx.max("max_live_heap_growth_over_a_leak_loop_bytes", live_after.saturating_sub(live_before) as u64);
        if live_after > live_before + 512 * 1024 {
            ctx.violation(
                "heap-growth",
                &format!("leak-heap:{}", name),
                &format!("looping {:?} {} times: live heap grew from {} to {} bytes", body, n, live_before, live_after),
                &text,
            );
        }
        let expect_tail = format!("OK {} \nREADY.\n<STOPPED>", n);
        if max_stack > 200 || !stopped || !t.ends_with(&expect_tail) {
            let tail: String = t.chars().rev().take(200).collect::<Vec<char>>().into_iter().rev().collect();
            ctx.violation(
                "leak",
                &format!("leak:{}", name),
                &format!(
                    "looping {:?} {} times: value stack reached depth {} (must stay flat), stopped={}, transcript tail {:?}",
                    body, n, max_stack, stopped, tail
                ),
                &text,
            );
        }
    }

    fn limit_case(&self, k: usize, ctx: &mut Ctx) {
        let (name, prog) = LIMITS[k % LIMITS.len()];
        let lines: Vec<String> = prog.iter().map(|s| s.to_string()).collect();
        self.limit_run(name, &lines, ctx);
    }

    fn big_program_case(&self, data: bool, ctx: &mut Ctx) {
        // ~1000 bytes per line; enough lines to exceed 64K code or data cells
        let mut lines = vec![];
        for i in 0..400 {
            let mut l = format!("{} {}", i + 1, if data { "DATA " } else { "A=" });
            let mut first = true;
            while l.len() < 1000 {
                if !first {
                    l.push_str(if data { "," } else { "+" });
                }
                first = false;
                l.push('1');
            }
            lines.push(l);
        }
        self.limit_run(if data { "too-much-DATA" } else { "too-much-code" }, &lines, ctx);
    }

    fn limit_run(&self, name: &str, lines: &[String], ctx: &mut Ctx) {
        let text = if lines.len() > 10 { format!("{} lines like {:?}", lines.len(), &lines[0][..60]) } else { lines.join("\n") };
        mon::journal(&format!("{}\nRUN", text));
        let mut s = Session::new();
        s.drain(8);
        for l in lines {
            s.enter(l);
            s.drain(8);
        }
        let mark = s.mark();
        crate::alloc::reset_peak();
        let live_before = crate::alloc::live();
        s.enter("RUN");
        let mut max_stack = 0usize;
        let mut stopped = false;
        for _ in 0..200_000u64 {
            match s.step() {
                Some(Stop::Stopped) => {
                    stopped = true;
                    break;
                }
                Some(_) => break,
                None => {}
            }
            let pr = s.rt.verif_probe();
            max_stack = max_stack.max(pr.stack.len());
            // run-time pools are checked after each push: one cell over is the design. Code and data
            // are appended per line before the check, so they are bounded by limit + source size.
            let src: usize = lines.iter().map(|l| l.len()).sum();
            if pr.stack.len() > 65_600 || pr.vars.len() > 65_600 || pr.code_len > 65_600 + src || pr.data_len > 65_600 + src {
                ctx.violation(
                    "unbounded-growth",
                    &format!("limit:{}:growth", name),
                    &format!("pool grew beyond 64K: stack={} vars={} code={} data={}", pr.stack.len(), pr.vars.len(), pr.code_len, pr.data_len),
                    &text,
                );
                return;
            }
        }
        let pr = s.rt.verif_probe();
        let t = transcript(s.events_since(mark), Norm::STD);
        ctx.eval(&format!("limit:{}", name), true);
        ctx.cover("pools_driven_past_limit", name);
        ctx.max("max_stack_depth_seen_at_limits", max_stack as u64);
        ctx.max("max_code_len_seen", pr.code_len as u64);
        ctx.max("max_data_len_seen", pr.data_len as u64);
        ctx.max("max_variables_seen_at_limits", pr.vars.len() as u64);
        let high_water = crate::alloc::peak().saturating_sub(live_before);
        ctx.max("max_heap_high_water_at_a_limit_bytes", high_water as u64);
        if high_water > 96 * 1024 * 1024 {
            ctx.violation(
                "heap-high-water",
                &format!("limit:{}:heap", name),
                &format!("driving the pool past its limit allocated {} bytes above the starting level (bound 96 MiB)", high_water),
                &text,
            );
            return;
        }
        if !stopped || !t.contains("?OUT OF MEMORY") {
            let tail: String = t.chars().rev().take(300).collect::<Vec<char>>().into_iter().rev().collect();
            ctx.violation(
                "no-out-of-memory",
                &format!("limit:{}", name),
                &format!("expected OUT OF MEMORY and a return to the prompt; stopped={}, transcript tail {:?}", stopped, tail),
                &text,
            );
            return;
        }
        // the session stays usable
        let mark = s.mark();
        s.enter("PRINT 7*6");
        let st = s.drain(64);
        let t2 = transcript(s.events_since(mark), Norm::STD);
        if st != Stop::Stopped || !t2.contains(" 42 ") {
            ctx.violation(
                "unusable-after-limit",
                &format!("limit:{}:after", name),
                &format!("after OUT OF MEMORY, PRINT 7*6 gave {:?}", t2),
                &text,
            );
            return;
        }
        // and CLEAR / NEW give the pools back
        s.enter("NEW");
        s.drain(64);
        let mark = s.mark();
        s.enter("10 FOR I=1 TO 3:A(I)=I:NEXT:PRINT A(3)");
        s.drain(8);
        s.enter("RUN");
        s.drain(64);
        let t3 = transcript(s.events_since(mark), Norm::STD);
        if !t3.contains(" 3 ") {
            ctx.violation(
                "pools-not-released",
                &format!("limit:{}:release", name),
                &format!("after NEW a small program gave {:?}", t3),
                &text,
            );
        }
    }


    /// Waits: a program that asks for keys (INKEY$) and replies (INPUT) inside loops and subroutines; at a random
    /// subset of the waits a break arrives instead of the answer, a direct statement may be typed, and CONT puts
    /// the program back into the same wait. The value stack must be exactly as deep as it was when the wait began,
    /// and when the program has finished nothing may be left on it.
    fn waits_case(&self, rng: &mut Rng, ctx: &mut Ctx) {
        let n = rng.range(3, 40);
        let templates: [Vec<String>; 6] = [
            vec![format!("10 FOR I=1 TO {}", n), "20 A$=INKEY$".into(), "30 S=S+LEN(A$)".into(), "40 NEXT".into(), "50 PRINT \"DONE\";S".into()],
            vec![format!("10 I=I+1:GOSUB 100:IF I<{} THEN 10", n), "20 PRINT \"DONE\";S:END".into(), "100 A$=INKEY$:S=S+LEN(A$):RETURN".into()],
            vec![format!("10 FOR I=1 TO {}", n), "20 INPUT \"Q\";A,B$".into(), "30 S=S+A+LEN(B$)-1".into(), "40 NEXT".into(), "50 PRINT \"DONE\";S".into()],
            vec![format!("10 FOR I=1 TO {}:FOR J=1 TO 2", n), "20 IF INKEY$<>\"\" THEN S=S+.5".into(), "30 NEXT J,I".into(), "40 PRINT \"DONE\";S".into()],
            vec![format!("10 WHILE I<{}:I=I+1:A$=LEFT$(A$+INKEY$,9):S=S+1:WEND", n), "20 PRINT \"DONE\";S".into()],
            vec![format!("10 FOR I=1 TO {}:GOSUB 100:NEXT:PRINT \"DONE\";S:END", n), "100 FOR K=1 TO 3:INPUT A:IF A=1 THEN S=S+1:RETURN".into(), "110 NEXT:RETURN".into()],
        ];
        let t = rng.usize(templates.len());
        let lines = &templates[t];
        let want_done = format!("DONE {} ", n);
        let mut script: Vec<String> = lines.clone();
        script.push("RUN".into());
        let mut s = Session::new();
        s.drain(8);
        for l in lines {
            s.command(l, 16);
        }
        let mark = s.mark();
        s.enter("RUN");
        let mut waits = 0u64;
        let mut broken = 0u64;
        let mut finished = false;
        for _ in 0..2000 {
            let st = s.drain(20_000);
            let is_key = matches!(st, Stop::Inkey);
            match st {
                Stop::Stopped => {
                    finished = true;
                    break;
                }
                Stop::Inkey | Stop::Input(..) => {
                    waits += 1;
                    if rng.coin() {
                        let d0 = s.rt.verif_probe().stack.len();
                        let times = 1 + rng.usize(2);
                        for _ in 0..times {
                            s.interrupt();
                            script.push("<break at the wait>".into());
                            if s.drain(64) != Stop::Stopped {
                                ctx.violation("no-stop", "waits:interrupt-no-stop", "a break at a wait did not stop the program", &script.join("\n"));
                                return;
                            }
                            if rng.coin() {
                                let d = *rng.pick(&["PRINT 1;", "Z=Z+1", "PRINT S"]);
                                script.push(d.into());
                                s.command(d, 64);
                            }
                            script.push("CONT".into());
                            s.enter("CONT");
                            let again = s.drain(64);
                            let same = if is_key { matches!(again, Stop::Inkey) } else { matches!(again, Stop::Input(..)) };
                            let d1 = s.rt.verif_probe().stack.len();
                            broken += 1;
                            if !same || d1 != d0 {
                                ctx.violation(
                                    "wait-not-restored",
                                    &format!("waits:cont:{}", if is_key { "inkey" } else { "input" }),
                                    &format!("after break + CONT at a wait the program is at {:?} with {} cells on the value stack; before the break it waited with {} cells", again, d1, d0),
                                    &script.join("\n"),
                                );
                                return;
                            }
                        }
                    }
                    let reply = if is_key { "z" } else if t == 2 { "1,x" } else { "1" };
                    script.push(format!("<answer {:?}>", reply));
                    s.enter(reply);
                }
                _ => break,
            }
        }
        mon::journal(&script.join("\n"));
        let out = transcript(s.events_since(mark), Norm::STD);
        let pr = s.rt.verif_probe();
        ctx.eval(&script.join("\n"), broken > 0);
        ctx.add("waits_seen", waits);
        ctx.add("waits_broken_and_continued", broken);
        if !finished || !out.contains(&want_done) || !pr.stack.is_empty() {
            ctx.violation(
                "waits-residue",
                "waits:end",
                &format!("finished={} output contains {:?}: {}; value stack at the end {:?}; transcript tail {:?}", finished, want_done, out.contains(&want_done), pr.stack, out.chars().rev().take(200).collect::<String>().chars().rev().collect::<String>()),
                &script.join("\n"),
            );
        }
    }

    /// Stack-shape (conservation) monitor: a generated program is looped and marked with `Z9=Z9+1`
    /// statements; the reference interpreter says how many FOR and GOSUB frames are open at each
    /// marker, the real value stack is read through the probe each time Z9 changes.
    fn shape_case(&self, rng: &mut Rng, ctx: &mut Ctx) {
        let o = Opts { data: rng.coin(), func: rng.chance(1, 3), tron: false, stop: false, max_lines: 30, input: false, frac: rng.coin(), strings: rng.chance(1, 3), arrays: rng.coin() };
        let mut p = gen::generate(rng, o);
        let passes = rng.range(2, 9);
        if !gen::loop_and_mark(&mut p, rng, passes) {
            ctx.count("shape_discarded_no_end");
            ctx.evals += 1;
            return;
        }
        let lines = gen::render(&p);
        let text = lines.join("\n");
        mon::journal(&text);
        let m = gen::model_run(&p, 60_000);
        if let gen::End::Unspec(why) = m.end {
            ctx.count(&format!("shape_discarded_unspecified_{}", why));
            ctx.evals += 1;
            return;
        }
        let mut s = Session::new();
        s.drain(8);
        for l in &lines {
            s.enter(l);
            s.drain(8);
        }
        s.quantum = 1;
        s.enter("RUN");
        let mut last_z = 0.0f64;
        let mut shapes: Vec<usize> = vec![];
        let mut stopped = false;
        let mut steps = 0u64;
        for _ in 0..2_000_000u64 {
            match s.step() {
                Some(Stop::Stopped) => {
                    stopped = true;
                    break;
                }
                Some(_) => break,
                None => {}
            }
            steps += 1;
            let pr = s.rt.verif_probe();
            let mut z = 0.0f64;
            for (k, v) in &pr.vars {
                if k == gen::MARKER {
                    if let basic::mach::Val::Single(x) = v {
                        z = *x as f64;
                    }
                }
                if is_default(v) {
                    ctx.violation(
                        "default-stored",
                        "shape:default-stored",
                        &format!("the variable pool holds {:?} = {:?}: a default value occupies a slot", k, v),
                        &text,
                    );
                    return;
                }
            }
            if z != last_z {
                last_z = z;
                shapes.push(pr.stack.len());
            }
        }
        let want: Vec<usize> = m.shape_log.iter().map(|(f, g)| (4 * f + g) as usize).collect();
        let flat = m.shape_log.iter().all(|x| *x == (0, 0));
        ctx.eval(&text, want.len() >= 6 && m.kinds.len() >= 4);
        ctx.add("shape_markers_compared", want.len() as u64);
        ctx.add("shape_single_steps_probed", steps);
        ctx.max("shape_max_open_frames_at_a_marker", m.shape_log.iter().map(|(f, g)| (f + g) as u64).max().unwrap_or(0));
        ctx.count(if flat { "shape_programs_all_markers_at_depth_0" } else { "shape_programs_with_open_frames_at_markers" });
        for k in &m.kinds {
            ctx.cover("shape_model_statement_kinds", k);
        }
        if !stopped {
            ctx.violation("no-stop", "shape:no-stop", "looped program did not stop within 2,000,000 single steps", &text);
            return;
        }
        if shapes != want {
            let i = shapes.iter().zip(want.iter()).position(|(a, b)| a != b).unwrap_or(shapes.len().min(want.len()));
            ctx.violation(
                "stack-shape",
                "shape:mismatch",
                &format!(
                    "value-stack depth at marker #{} is {:?}, the reference interpreter has {:?} open (FOR,GOSUB) frames = depth {:?}; {} markers seen, {} expected\nreal : {:?}\nmodel: {:?}",
                    i,
                    shapes.get(i),
                    m.shape_log.get(i),
                    want.get(i),
                    shapes.len(),
                    want.len(),
                    &shapes[..shapes.len().min(60)],
                    &want[..want.len().min(60)]
                ),
                &text,
            );
            return;
        }
        if ctx.want_sample() && want.len() > 10 {
            ctx.sample(&format!("{}\n(stack depth at the {} markers: {:?})", text, want.len(), &want[..want.len().min(40)]));
        }
        // the same program for many passes at full speed: a flat shape must stay flat, and the heap too
        if flat && matches!(m.end, gen::End::Normal) && rng.chance(1, 4) {
            let big = 3000i64;
            let lines2: Vec<String> = lines.iter().map(|l| l.replace(&format!("Z8<{} ", passes), &format!("Z8<{} ", big))).collect();
            if lines2 == lines {
                return;
            }
            let mut s = Session::new();
            s.drain(8);
            for l in &lines2 {
                s.enter(l);
                s.drain(8);
            }
            mon::journal(&lines2.join("\n"));
            s.enter("RUN");
            let mut live_early = 0usize;
            let mut max_stack = 0usize;
            let mut st = Stop::Budget;
            for i in 0..200_000u64 {
                match s.step() {
                    Some(x) => {
                        st = x;
                        break;
                    }
                    None => {}
                }
                if i == 40 {
                    s.log.clear();
                    s.log.shrink_to_fit();
                    live_early = crate::alloc::live();
                }
                if i % 16 == 0 {
                    max_stack = max_stack.max(s.rt.verif_probe().stack.len());
                    if i > 40 {
                        s.log.clear();
                    }
                }
            }
            s.log.clear();
            s.log.shrink_to_fit();
            let live_end = crate::alloc::live();
            ctx.count("shape_long_runs");
            ctx.max("shape_long_run_max_stack", max_stack as u64);
            let pr = s.rt.verif_probe();
            if st == Stop::Budget {
                // values may grow from pass to pass until a loop bound is astronomically large: not judged
                ctx.count("shape_long_runs_not_finished_in_budget");
                return;
            }
            if st != Stop::Stopped || max_stack > 64 || pr.stack.len() > 64 {
                ctx.violation(
                    "leak",
                    "shape:long-run",
                    &format!("{} passes of a program whose frames all close: stop={:?}, max stack depth {}, final {}", big, st, max_stack, pr.stack.len()),
                    &lines2.join("\n"),
                );
                return;
            }
            if live_early > 0 && live_end > live_early + 256 * 1024 {
                ctx.violation(
                    "heap-growth",
                    "shape:heap-growth",
                    &format!("live heap grew from {} to {} bytes over {} passes of a program that leaves nothing behind", live_early, live_end, big),
                    &lines2.join("\n"),
                );
            }
        }
    }

    /// Every way of making a variable 0 / "" again frees its slot.
    fn zeroing_case(&self, rng: &mut Rng, ctx: &mut Ctx) {
        // (make non-default, make default again)
        const FORMS: [(&str, &str); 26] = [
            ("A%=1", "A%=A%/2"),
            ("A%=7", "A%=0.4"),
            ("B!=1", "B!=1D-60"),
            ("C#=3", "C#=0"),
            ("D$=\"X\"", "D$=\"\""),
            ("E$=\"X\"", "E$=MID$(E$,2)"),
            ("F=5", "F=F-5"),
            ("G%(3)=7", "G%(3)=G%(3) MOD 7"),
            ("H!=1", "H!=H!*0"),
            ("I=3:J=0", "SWAP I,J:J=0"),
            ("K=2", "FOR K=-1 TO -1:NEXT"),
            ("L$=\"AB\"", "L$=LEFT$(L$,0)"),
            ("M(1,2)=4", "M(1,2)=M(1,2)-4"),
            ("N#=1", "N#=N#-1"),
            ("O%=5", "O%=O% AND 2"),
            ("P=1", "P=P=0"),
            ("Q$(2)=\"Z\"", "Q$(2)=\"\""),
            ("R=1", "R=INT(R/2)"),
            ("S%=1", "S%=-0.5+0.5"),
            ("T!=1", "T!=T!-T!"),
            ("U$=\"AB\"", "MID$(U$,1)=\"CD\":U$=RIGHT$(U$,0)"),
            ("V=3", "V=VAL(\"\")"),
            // zeros that carry a minus sign are zeros too
            ("W=2", "W=-(W-2)"),
            ("X1!=3", "X1!=-X1!*0"),
            ("Y1#=1", "Y1#=FIX(-.5)"),
            ("Z1(2)=4", "Z1(2)=0:Z1(2)=-Z1(2)"),
        ];
        let mut order: Vec<usize> = (0..FORMS.len()).collect();
        rng.shuffle(&mut order);
        let k = rng.range(4, FORMS.len() as i64) as usize;
        let mut script: Vec<String> = vec![];
        let mut s = Session::new();
        s.drain(8);
        for &i in &order[..k] {
            script.push(FORMS[i].0.to_string());
        }
        let mut zero: Vec<usize> = order[..k].to_vec();
        rng.shuffle(&mut zero);
        for &i in &zero {
            script.push(FORMS[i].1.to_string());
        }
        let text = script.join("\n");
        mon::journal(&text);
        let mut filled = 0usize;
        for (n, l) in script.iter().enumerate() {
            let mark = s.mark();
            if s.command(l, 64) != Stop::Stopped {
                ctx.violation("no-stop", "zeroing:no-stop", "no return to the prompt", &text);
                return;
            }
            if s.events_since(mark).iter().any(|e| matches!(e, Ev::Error(..))) {
                ctx.violation(
                    "unexpected-error",
                    "zeroing:error",
                    &format!("{:?} reported {:?}", l, transcript(s.events_since(mark), Norm::STD)),
                    &text,
                );
                return;
            }
            let pr = s.rt.verif_probe();
            if n + 1 == k {
                filled = pr.vars.len();
            }
            for (name, v) in &pr.vars {
                if is_default(v) {
                    ctx.violation(
                        "default-stored",
                        &format!("zeroing:default-stored:{}", l.split('=').next().unwrap_or("")),
                        &format!("after {:?} the variable pool holds {:?} = {:?}: a default value occupies a slot", l, name, v),
                        &text,
                    );
                    return;
                }
            }
        }
        let pr = s.rt.verif_probe();
        ctx.eval(&text, true);
        ctx.add("zeroing_forms_exercised", k as u64);
        ctx.max("zeroing_slots_when_filled", filled as u64);
        if filled + 1 < k || !pr.vars.is_empty() || !pr.stack.is_empty() {
            ctx.violation(
                "slots-not-freed",
                "zeroing:slots",
                &format!("{} slots after filling ({} variables set), {:?} left after zeroing them all, stack depth {}", filled, k, pr.vars, pr.stack.len()),
                &text,
            );
        }
        if ctx.want_sample() {
            ctx.sample(&text);
        }
    }

    fn slots_case(&self, ctx: &mut Ctx) {
        // setting variables back to 0 / "" frees their slots
        let lines = [
            "10 DIM A(5000),B$(5000)",
            "20 FOR I=0 TO 5000:A(I)=I+1:B$(I)=\"X\":NEXT",
            "30 STOP",
            "40 FOR I=0 TO 5000:A(I)=0:B$(I)=\"\":NEXT:C=5:C=0:D$=\"Q\":D$=\"\":I=0",
        ];
        let mut s = Session::new();
        s.drain(8);
        for l in lines {
            s.enter(l);
            s.drain(8);
        }
        mon::journal(&lines.join("\n"));
        s.enter("RUN");
        s.drain(10_000);
        let full = s.rt.verif_probe().vars.len();
        s.enter("CONT");
        s.drain(10_000);
        let after = s.rt.verif_probe().vars.len();
        ctx.eval("slots", true);
        ctx.max("variables_when_filled", full as u64);
        ctx.max("variables_after_resetting_to_defaults", after as u64);
        if full < 10_000 || after != 0 {
            ctx.violation(
                "slots-not-freed",
                "slots",
                &format!("{} slots in use after filling, {} after setting everything back to 0 / \"\" (expected 0)", full, after),
                &lines.join("\n"),
            );
        }
    }
}

impl Prop for C18 {
    fn cases(&self, tier: Tier) -> u64 {
        (BODIES.len() + LIMITS.len() + 3) as u64
            + match tier {
                Tier::Quick => 12_000,
                Tier::Thorough => 300_000,
            }
    }

    fn cpu_budget_s(&self) -> u64 {
        120
    }

    fn rule(&self) -> &'static str {
        "(a) 22 statement forms (ON..GOSUB out of range and taken, ON..GOTO, GOSUB/RETURN, FOR/NEXT complete, nested, \
         abandoned inside a subroutine, inner abandoned then NEXT outer, WHILE/WEND, IF/ELSE, FN calls, READ/RESTORE, \
         string ops, MID$=, SWAP, DIM/ERASE, array default stores, PRINT TAB/SPC/POS, TRON/TROFF) each looped 70,000 \
         (thorough: 140,000) times, more than the 65,535-cell pools; the value-stack depth and variable count are \
         sampled through the probe hook every 7th execute() slice and must stay flat, and the loop must finish. \
         (b) 9 pools driven past their limit (GOSUB, FN and mutual FN recursion, abandoned FOR, re-entered ON..GOSUB, \
         3x32001 numeric and string array elements, >64K code, >64K DATA): must report OUT OF MEMORY, the value stack and variable \
         pools may never exceed 65,600 cells at any probe (code/data: that plus the source size), PRINT must work afterwards and NEW must release the pools. (c) filling \
         10,002 array slots and resetting them to 0 / \"\" must leave 0 slots. Cases (a)-(c) are distinct by construction \
         and non-trivial. (d) stack-shape monitor: random structured programs (FOR/NEXT with early exits, WHILE, GOSUB, \
         ON..GOSUB, IF/ELSE, READ/DATA, DEF FN) are looped 2..9 times and marked with Z9=Z9+1 statements at random line \
         starts; the program is single-stepped (execute(1)) and every time the probe shows Z9 changed the value-stack \
         depth must equal 4*F+G where the reference interpreter has F open FOR and G open GOSUB frames at that marker \
         (a completed statement leaves nothing, an abandoned loop exactly one frame); the probe also asserts that no \
         default value (0 / \"\") occupies a variable slot. One in four all-flat programs is then run for 3000 passes \
         at full speed: stack depth <= 64 and live heap bytes (counting allocator) may not grow by more than 256 KiB. \
         (e) zeroing monitor: 4..26 variables of every type are set, then made 0 / \"\" again in 26 different ways (negative zeros included) \
         (literal, arithmetic, coercion A%=0.4, underflow, MOD, string functions, SWAP, FOR, VAL); the pool must be \
         empty. Heap: the counting allocator bounds the high-water mark at every limit (96 MiB) and the growth over \
         every leak loop (512 KiB). Distinct = hash of program text; non-trivial for (d) = >= 6 markers and >= 4 \
         statement kinds."
    }

    fn run_case(&mut self, idx: u64, rng: &mut Rng, ctx: &mut Ctx) {
        let i = idx as usize;
        if i < BODIES.len() {
            self.leak_case(i, rng, ctx)
        } else if i < BODIES.len() + LIMITS.len() {
            self.limit_case(i - BODIES.len(), ctx)
        } else if i == BODIES.len() + LIMITS.len() {
            self.big_program_case(false, ctx)
        } else if i == BODIES.len() + LIMITS.len() + 1 {
            self.big_program_case(true, ctx)
        } else if i == BODIES.len() + LIMITS.len() + 2 {
            self.slots_case(ctx)
        } else if i % 5 == 0 {
            self.zeroing_case(rng, ctx)
        } else if i % 50 == 7 {
            // programs within a few dozen opcodes of the code pool's limit, on both sides of it, followed by direct
            // statements: whatever is refused, the session stays usable (the C03 driver; its end check asks for PRINT 7*6)
            C03.nearly_full_case(rng, ctx)
        } else if i % 5 == 1 {
            self.waits_case(rng, ctx)
        } else {
            self.shape_case(rng, ctx)
        }
    }
}
