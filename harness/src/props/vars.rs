//! C06 — variables and arrays are typed, zero-initialised, bounds-checked, never aliased.

use crate::conv::from_val;
use crate::ctx::{Ctx, Tier};
use crate::drive::{error_name, transcript, Ev, Norm, Session, Stop};
use crate::model::val::V;
use crate::mon;
use crate::rng::Rng;
use crate::Prop;
use std::collections::{BTreeMap, VecDeque};

/// steps of a forced chain on one array (index into ARRAYS)
enum Forced {
    Store(usize, Vec<i64>),
    Erase(usize),
    Dim(usize, Vec<i64>),
}

/// (l-value, type code) operands of the in-program SWAP cases
const SWAP_LV: [(&str, u8); 10] =
    [("A%", 0), ("B!", 1), ("C#", 2), ("D", 1), ("E$", 3), ("H%(1)", 0), ("G(2)", 1), ("GA#(1,1)", 2), ("K$(0)", 3), ("A1%", 0)];

/// SWAP inside a program: equal types exchange; mixed types stop with TYPE MISMATCH and, after CONT, both
/// operands still hold their own values.
fn swap_prog_case(rng: &mut Rng, ctx: &mut Ctx) {
    let i = rng.usize(SWAP_LV.len());
    let mut j = rng.usize(SWAP_LV.len());
    if i == j {
        j = (j + 1) % SWAP_LV.len();
    }
    let ((l1, t1), (l2, t2)) = (SWAP_LV[i], SWAP_LV[j]);
    let val = |t: u8, k: usize| -> (&str, &str) {
        match t {
            0 => [("7", " 7 "), ("127", " 127 ")][k],
            1 => [("1.25", " 1.25 "), ("-3.5", "-3.5 ")][k],
            2 => [("2.5", " 2.5 "), ("40.75", " 40.75 ")][k],
            _ => [("\"s1\"", "s1"), ("\"s2\"", "s2")][k],
        }
    };
    let val = |t: u8, k: usize| { let (a, b) = val(t, k); (a.to_string(), b.to_string()) };
    let ((r1, p1), (r2, p2)) = (val(t1, 0), val(t2, 1));
    let tail = *rng.pick(&["", ":X9=1", ":REM"]);
    let lines = [
        format!("10 {}={}:{}={}", l1, r1, l2, r2),
        format!("20 SWAP {},{}{}", l1, l2, tail),
        format!("30 PRINT \"[\";{};\"][\";{};\"]\"", l1, l2),
    ];
    let mut s = Session::new();
    s.drain(8);
    for l in &lines {
        s.command(l, 64);
    }
    let mut text = lines.join("\n");
    let mark = s.mark();
    s.command("RUN", 4000);
    text.push_str("\nRUN");
    let want = if t1 == t2 {
        format!("[{}][{}]\nREADY.\n<STOPPED>", p2, p1)
    } else {
        s.command("CONT", 4000);
        text.push_str("\nCONT");
        format!("?TYPE MISMATCH IN 20\nREADY.\n<STOPPED>[{}][{}]\nREADY.\n<STOPPED>", p1, p2)
    };
    mon::journal(&text);
    let got = transcript(s.events_since(mark), Norm::STD);
    ctx.count("swap_programs");
    if got != want {
        ctx.violation(
            "swap-program",
            if t1 == t2 { "vars:swap-program:same" } else { "vars:swap-program:mixed" },
            &format!("printed {:?}\n expected {:?}", got, want),
            &text,
        );
        return;
    }
    ctx.eval(&text, t1 != t2);
}

pub struct C06;

/// (name, type code 0=I 1=S 2=D 3=$; 9 = by first letter)
const SCALARS: [(&str, u8); 10] = [
    ("A", 9), ("B%", 0), ("C!", 1), ("D#", 2), ("E$", 3), ("AB", 9), ("F1", 9), ("FA", 9), ("A1%", 0), ("BA$", 3),
];
/// (name, dims, type code)
const ARRAYS: [(&str, usize, u8); 7] = [("G", 1, 9), ("H%", 1, 0), ("K$", 1, 3), ("M", 2, 9), ("A", 1, 9), ("GA#", 2, 2), ("T", 3, 9)];

#[derive(Clone, PartialEq, Debug)]
enum MV {
    /// numbers: small dyadic values, exact in every numeric type that can hold them
    N(f64),
    S(String),
}

/// rhs text and value: whole numbers, quarters and negative values; `floor` for Integer targets
fn num_rhs(rng: &mut Rng, seq: i64, integer_target: bool) -> (String, f64) {
    let whole = seq % 200;
    let (text, v): (String, f64) = match rng.usize(6) {
        0 => (format!("{}.25", whole), whole as f64 + 0.25),
        1 => (format!("{}.5", whole), whole as f64 + 0.5),
        2 => (format!("-{}.75", whole), -(whole as f64) - 0.75),
        3 => (format!("-{}", whole + 1), -(whole as f64) - 1.0),
        _ => (whole.to_string(), whole as f64),
    };
    (text, if integer_target { v.floor() } else { v })
}

fn show_num(x: f64) -> String {
    let t = if x.fract() == 0.0 { format!("{}", x.abs() as i64) } else { format!("{}", x.abs() as f32) };
    format!("{}{} ", if x < 0.0 { "-" } else { " " }, t)
}

struct Model {
    /// key (text of the reference, e.g. "G(3)") -> value; absent = default
    vals: BTreeMap<String, MV>,
    /// array name -> bounds
    dims: BTreeMap<String, Vec<i64>>,
    /// letter -> type code
    types: [u8; 26],
    /// keys whose value the model no longer knows (after DEFtype)
    unknown: bool,
    /// arrays of which the model does not know whether they exist (negative subscript on first use)
    unk_dims: std::collections::BTreeSet<String>,
    /// scalars whose value the model does not know (unsuffixed names across a DEFtype, and whatever
    /// was SWAPped with one)
    unk: std::collections::BTreeSet<String>,
}

impl Model {
    fn ty(&self, name: &str, code: u8) -> u8 {
        if code != 9 {
            code
        } else {
            self.types[(name.as_bytes()[0] - b'A') as usize]
        }
    }
}

fn type_of_key(key: &str, types: &[u8; 26]) -> Option<u8> {
    let last = key.chars().last()?;
    Some(match last {
        '%' => 0,
        '!' => 1,
        '#' => 2,
        '$' => 3,
        _ => {
            // array keys end with the variable name again; scalar keys are the name
            let name = key.rsplit(',').next().unwrap_or(key);
            let c = name.chars().next()?;
            if !c.is_ascii_uppercase() {
                return None;
            }
            types[(c as u8 - b'A') as usize]
        }
    })
}

impl Prop for C06 {
    fn cases(&self, tier: Tier) -> u64 {
        match tier {
            Tier::Quick => 180_000,
            Tier::Thorough => 3_000_000,
        }
    }

    fn rule(&self) -> &'static str {
        "Sessions of 10..40 direct statements over 10 scalar names (every suffix, names sharing prefixes such as A / AB / \
         A1% / FA, F-names) and 6 arrays (1 and 2 dimensions, an array and a scalar both called A): assignments of \
         numbers and strings (also of the wrong kind), array stores and reads with subscripts -1, 0, 1, bound-1, bound, \
         bound+1, 10, 11, DIM (fresh and repeated), ERASE, DEFINT/DEFSNG/DEFDBL/DEFSTR ranges, SWAP of equal and \
         mixed types, chains on one array (store, ERASE, DIM with smaller bounds, the same store again), program lines typed \
         and removed in between; every 8th case is a three-line program that SWAPs two l-values (equal types \
         exchange; mixed types stop with TYPE MISMATCH and after CONT both still hold their own values). After every statement (a) the probe hook lists every stored value and each must have the type \
         its own name implies (suffix or first-letter DEFtype), (b) the error reported, if any, must be the model's \
         (TYPE MISMATCH, SUBSCRIPT OUT OF RANGE, REDIMENSIONED ARRAY), and every 4th step all tracked names are \
         printed and compared with the reference store (unassigned = 0 / \"\"; distinct names never influence each \
         other). Values the manual leaves open after a DEFtype change are not compared until reassigned. Distinct = \
         hash of the session; non-trivial = it contains an array operation and an error."
    }

    fn run_case(&mut self, _idx: u64, rng: &mut Rng, ctx: &mut Ctx) {
        if _idx % 8 == 7 {
            return swap_prog_case(rng, ctx);
        }
        let mut m = Model { vals: BTreeMap::new(), dims: BTreeMap::new(), types: [1; 26], unknown: false, unk_dims: Default::default(), unk: Default::default() };
        let mut s = Session::new();
        s.drain(8);
        let mut script: Vec<String> = vec![];
        let n = rng.range(10, 40);
        let mut saw_array = false;
        let mut saw_error = false;
        let mut next_val = 1i64;
        let mut forced: VecDeque<Forced> = VecDeque::new();
        for step in 0..n {
            let mut expect_err: Option<&str> = None;
            let mut any_err_ok = false;
            let mut must_err_any = false;
            let mut f = forced.pop_front();
            let mut choice = match &f {
                Some(Forced::Store(..)) => 3,
                Some(Forced::Erase(..)) => 7,
                Some(Forced::Dim(..)) => 6,
                None => rng.usize(14),
            };
            if choice == 12 {
                // a chain on one array, with no other array access in between: store an element, ERASE, DIM with
                // smaller bounds that exclude the element, store the same element again (must be refused)
                let ai = rng.usize(ARRAYS.len());
                let (name, nd, _) = ARRAYS[ai];
                let b = m.dims.get(name).cloned().unwrap_or_else(|| vec![10; nd]);
                if !m.dims_unknown(name) && b.iter().all(|x| *x >= 1) {
                    let subs: Vec<i64> = b.iter().map(|x| rng.range(1, *x + 1)).collect();
                    let shrink = rng.usize(nd);
                    let newb: Vec<i64> = (0..nd).map(|d| if d == shrink { rng.range(0, subs[d]) } else { *rng.pick(&[b[d], subs[d], 10]) }).collect();
                    f = Some(Forced::Store(ai, subs.clone()));
                    forced.push_back(Forced::Erase(ai));
                    forced.push_back(Forced::Dim(ai, newb));
                    forced.push_back(Forced::Store(ai, subs));
                }
                choice = 3;
            }
            let stmt: String = match choice {
                0..=2 => {
                    let (name, code) = SCALARS[rng.usize(SCALARS.len())];
                    let ty = m.ty(name, code);
                    let give_str = if rng.chance(1, 6) { ty != 3 } else { ty == 3 };
                    if give_str == (ty == 3) {
                        // the assignment will succeed: the value is known again
                        m.unk.remove(name);
                    }
                    next_val += 1;
                    if give_str {
                        let v = format!("s{}", next_val);
                        if ty == 3 {
                            m.vals.insert(name.to_string(), MV::S(v.clone()));
                        } else {
                            expect_err = Some("TYPE MISMATCH");
                        }
                        format!("{}=\"{}\"", name, v)
                    } else {
                        let (t, v) = num_rhs(rng, next_val, ty == 0);
                        if ty == 3 {
                            expect_err = Some("TYPE MISMATCH");
                        } else {
                            m.vals.insert(name.to_string(), MV::N(v));
                        }
                        format!("{}={}", name, t)
                    }
                }
                3..=5 => {
                    saw_array = true;
                    let (name, nd, code) = ARRAYS[if let Some(Forced::Store(ai, _)) = &f { *ai } else { rng.usize(ARRAYS.len()) }];
                    let ty = m.ty(name, code);
                    let bounds = m.dims.get(name).cloned();
                    let subs: Vec<i64> = if let Some(Forced::Store(_, subs)) = &f {
                        subs.clone()
                    } else {
                        (0..nd)
                            .map(|d| {
                                let b = bounds.as_ref().map(|b| b[d]).unwrap_or(10);
                                let x = *rng.pick(&[-1, 0, 0, 1, 1, b - 1, b, b, b + 1, 10, 11, 2, 3, 12, 23, 32767, 32767, 32768, 40000]);
                                // a negative subscript on first use: whether the array then exists is open
                                if bounds.is_none() && x < 0 { 0 } else { x }
                            })
                            .collect()
                    };
                    let key = format!("{}({})", name, subs.iter().map(|x| x.to_string()).collect::<Vec<_>>().join(","));
                    // the subscript as typed: sometimes with a fraction (floored), never changing the element meant
                    let typed_subs: Vec<String> = subs
                        .iter()
                        .map(|x| {
                            if *x >= 0 && rng.chance(1, 5) {
                                format!("{}.{}", x, rng.pick(&["5", "25", "9"]))
                            } else if *x == -1 && rng.coin() {
                                // floors to -1 whatever the type of the constant
                                rng.pick(&["-0.5", "-.25#", "-0.999#", "-1", "-0.5#"]).to_string()
                            } else {
                                x.to_string()
                            }
                        })
                        .collect();
                    let typed_key = format!("{}({})", name, typed_subs.join(","));
                    let b = bounds.clone().unwrap_or_else(|| vec![10; nd]);
                    let in_range = subs.iter().zip(b.iter()).all(|(x, bb)| *x >= 0 && x <= bb);
                    next_val += 1;
                    let v = next_val % 200;
                    let (nt, nv) = num_rhs(rng, next_val, ty == 0);
                    let rhs = if ty == 3 { format!("\"s{}\"", v) } else { nt };
                    if bounds.is_none() && m.dims_unknown(name) {
                        // the model does not know whether this array exists, nor with which bounds: not judged
                        any_err_ok = true;
                    } else if subs.iter().any(|x| *x > 32767) {
                        // beyond the Integer range: some error (OVERFLOW or SUBSCRIPT OUT OF RANGE), nothing stored
                        any_err_ok = true;
                        must_err_any = true;
                        if bounds.is_none() {
                            m.unknown_dims(name);
                        }
                    } else if subs.iter().any(|x| *x < 0) {
                        // negative subscript: an error, and whether the array got auto-dimensioned is open
                        any_err_ok = true;
                        expect_err = Some("SUBSCRIPT OUT OF RANGE");
                        if bounds.is_none() {
                            m.unknown_dims(name);
                        }
                    } else if !in_range {
                        expect_err = Some("SUBSCRIPT OUT OF RANGE");
                        if bounds.is_none() {
                            m.dims.insert(name.to_string(), vec![10; nd]);
                        }
                    } else {
                        if bounds.is_none() {
                            m.dims.insert(name.to_string(), vec![10; nd]);
                        }
                        m.vals.insert(key.clone(), if ty == 3 { MV::S(format!("s{}", v)) } else { MV::N(nv) });
                    }
                    format!("{}={}", typed_key, rhs)
                }
                6 => {
                    saw_array = true;
                    let (name, nd, _) = ARRAYS[if let Some(Forced::Dim(ai, _)) = &f { *ai } else { rng.usize(ARRAYS.len()) }];
                    let b: Vec<i64> = if let Some(Forced::Dim(_, b)) = &f {
                        b.clone()
                    } else if nd == 1 && rng.chance(1, 8) {
                        // the largest bound there is: subscript 32767 must exist, 32768 must not
                        vec![*rng.pick(&[32767i64, 32767, 32766])]
                    } else {
                        (0..nd).map(|_| rng.range(0, 12)).collect()
                    };
                    let b: Vec<i64> = if f.is_none() && rng.chance(1, 10) {
                        // a negative bound declares nothing: some error, and the array is as it was
                        let mut b = b;
                        let d = rng.usize(nd);
                        b[d] = -1;
                        b
                    } else {
                        b
                    };
                    if b.iter().any(|x| *x < 0) {
                        any_err_ok = true;
                        must_err_any = true;
                    } else if m.dims.contains_key(name) {
                        expect_err = Some("REDIMENSIONED ARRAY");
                    } else if m.dims_unknown(name) {
                        any_err_ok = true;
                    } else {
                        m.dims.insert(name.to_string(), b.clone());
                    }
                    format!("DIM {}({})", name, b.iter().map(|x| x.to_string()).collect::<Vec<_>>().join(","))
                }
                7 => {
                    saw_array = true;
                    let (name, _, _) = ARRAYS[if let Some(Forced::Erase(ai)) = &f { *ai } else { rng.usize(ARRAYS.len()) }];
                    if m.dims.remove(name).is_some() {
                        let prefix = format!("{}(", name);
                        m.vals.retain(|k, _| !k.starts_with(&prefix));
                    } else {
                        any_err_ok = true;
                    }
                    m.clear_unknown_dims(name);
                    format!("ERASE {}", name)
                }
                8 => {
                    let kw = *rng.pick(&["DEFINT", "DEFSNG", "DEFDBL", "DEFSTR"]);
                    let code = match kw {
                        "DEFINT" => 0,
                        "DEFSNG" => 1,
                        "DEFDBL" => 2,
                        _ => 3,
                    };
                    let a = *rng.pick(&['A', 'F', 'G', 'M']);
                    let b = *rng.pick(&['A', 'B', 'G', 'M', 'Z']);
                    let (a, b) = if a <= b { (a, b) } else { (b, a) };
                    for c in a..=b {
                        m.types[(c as u8 - b'A') as usize] = code;
                    }
                    // what happens to existing unsuffixed values is left open: forget them
                    let suffixed = |k: &str| {
                        let name = k.split('(').next().unwrap_or(k);
                        name.ends_with(['%', '!', '#', '$'])
                    };
                    m.vals.retain(|k, _| suffixed(k));
                    m.unknown = true;
                    for (n, c) in SCALARS.iter() {
                        if *c == 9 {
                            m.unk.insert(n.to_string());
                        }
                    }
                    if a == b {
                        format!("{} {}", kw, a)
                    } else {
                        format!("{} {}-{}", kw, a, b)
                    }
                }
                9 | 10 => {
                    let (n1, c1) = SCALARS[rng.usize(SCALARS.len())];
                    let (n2, c2) = SCALARS[rng.usize(SCALARS.len())];
                    {
                        // (values of unsuffixed names may be unknown to the model after a DEFtype: they are
                        // absent from `vals` and skipped at read-back until reassigned; the types are known)
                        let (t1, t2) = (m.ty(n1, c1), m.ty(n2, c2));
                        if t1 == t2 {
                            let (u1, u2) = (m.unk.remove(n1), m.unk.remove(n2));
                            if u2 {
                                m.unk.insert(n1.to_string());
                            }
                            if u1 {
                                m.unk.insert(n2.to_string());
                            }
                            let v1 = m.vals.remove(n1);
                            let v2 = m.vals.remove(n2);
                            if n1 != n2 {
                                if let Some(v) = v2 {
                                    m.vals.insert(n1.to_string(), v);
                                }
                                if let Some(v) = v1 {
                                    m.vals.insert(n2.to_string(), v);
                                }
                            } else if let Some(v) = v1 {
                                m.vals.insert(n1.to_string(), v);
                            }
                        } else {
                            expect_err = Some("TYPE MISMATCH");
                        }
                        format!("SWAP {},{}", n1, n2)
                    }
                }
                13 => {
                    // a program line typed or removed in between: the listing is not the variables' business
                    rng.pick(&["10 REM", "10", "20 PRINT 1", "20", "65529 A=1", "65529", "5 DEFSTR A-Z", "5"]).to_string()
                }
                _ => "CLEAR".to_string(),
            };
            if stmt == "CLEAR" {
                m.vals.clear();
                m.dims.clear();
                m.types = [1; 26];
                m.unknown = false;
                m.unk_dims.clear();
                m.unk.clear();
            }
            script.push(stmt.clone());
            let text = script.join("\n");
            mon::journal(&text);
            let mark = s.mark();
            if s.command(&stmt, 64) != Stop::Stopped {
                ctx.violation("no-stop", "vars:no-stop", "no return to prompt", &text);
                return;
            }
            let err = s.events_since(mark).iter().find_map(|e| if let Ev::Error(d, _, _) = e { Some(error_name(d)) } else { None });
            ctx.count("statements");
            if err.is_some() {
                saw_error = true;
            }
            let kind = stmt.split(|c: char| c == ' ' || c == '=' || c == '(').next().unwrap_or("").to_string();
            let kind = if stmt.starts_with(|c: char| c.is_ascii_digit()) { "line-edit".to_string() } else if stmt.starts_with("DIM") || stmt.starts_with("ERASE") || stmt.starts_with("SWAP") || stmt.starts_with("DEF") || stmt == "CLEAR" { kind } else if stmt.contains('(') { "array-store".to_string() } else { "scalar-store".to_string() };
            if must_err_any && err.is_none() {
                ctx.violation(
                    "wrong-outcome",
                    "vars:outcome:subscript-beyond-integer-range",
                    &format!("{:?}: a subscript above 32767 or a negative bound must be refused, but no error was reported", stmt),
                    &text,
                );
                return;
            }
            if !any_err_ok {
                match (expect_err, &err) {
                    (Some(w), Some(g)) if w == g => {}
                    (None, None) => {}
                    (w, g) => {
                        ctx.violation(
                            "wrong-outcome",
                            &format!("vars:outcome:{}:{}", kind, w.unwrap_or("ok")),
                            &format!("{:?}: expected {:?}, got {:?}", stmt, w, g),
                            &text,
                        );
                        return;
                    }
                }
            }
            // (a) every stored value has the type of its own name
            let pr = s.rt.verif_probe();
            for (k, v) in &pr.vars {
                let want = type_of_key(k, &pr.types);
                let got = match from_val(v) {
                    Some(V::I(_)) => Some(0u8),
                    Some(V::S(_)) => Some(1),
                    Some(V::D(_)) => Some(2),
                    Some(V::Str(_)) => Some(3),
                    None => None,
                };
                ctx.count("stored_values_type_checked");
                if want.is_some() && got != want {
                    ctx.violation(
                        "mistyped-value",
                        &format!("vars:mistyped:{}", kind),
                        &format!("after {:?} the store holds {:?} = {:?}, not of the variable's own type", stmt, k, v),
                        &text,
                    );
                    return;
                }
            }
            if pr.types != m.types {
                ctx.violation("deftype", "vars:deftype", &format!("after {:?} the per-letter types are {:?}, model {:?}", stmt, pr.types, m.types), &text);
                return;
            }
            // (b) read everything back
            if (step % 4 == 1) && forced.is_empty() {
                // a variable that reads as 0 reads as the 0 of its own type: (v+1)/3 shows the precision
                let zeros: Vec<(&str, u8)> = SCALARS
                    .iter()
                    .filter(|(name, code)| !m.unk.contains(*name) && !m.vals.contains_key(*name) && m.ty(name, *code) != 3)
                    .map(|(name, code)| (*name, m.ty(name, *code)))
                    .take(3)
                    .collect();
                if !zeros.is_empty() {
                    let line = format!("PRINT {}", zeros.iter().map(|(r, _)| format!("({}+1)/3", r)).collect::<Vec<_>>().join(";"));
                    let mark = s.mark();
                    s.command(&line, 64);
                    let got = transcript(s.events_since(mark), Norm::STD);
                    let want: String = zeros.iter().map(|(_, ty)| if *ty == 2 { " 0.3333333333333333 " } else { " 0.33333334 " }).collect::<Vec<_>>().join("") + "\nREADY.\n<STOPPED>";
                    ctx.add("zero_reads_typed", zeros.len() as u64);
                    if got != want {
                        ctx.violation(
                            "wrong-readback",
                            "vars:zero-of-own-type",
                            &format!("{}\n printed {:?}\n a variable that is 0 reads as the 0 of its own type: {:?}", line, got, want),
                            &format!("{}\n{}", text, line),
                        );
                        return;
                    }
                }
            }
            if (step % 4 == 3 || step == n - 1) && forced.is_empty() {
                let mut refs: Vec<(String, u8)> = vec![];
                for (name, code) in SCALARS.iter() {
                    let _ = code;
                    if m.unk.contains(*name) {
                        continue;
                    }
                    refs.push((name.to_string(), m.ty(name, *code)));
                }
                for (name, nd, code) in ARRAYS.iter() {
                    if let Some(b) = m.dims.get(*name) {
                        if *code == 9 && m.unknown {
                            continue;
                        }
                        let subs: Vec<i64> = (0..*nd).map(|d| *rng.pick(&[0, 1.min(b[d]), b[d], b[d] / 2])).collect();
                        refs.push((format!("{}({})", name, subs.iter().map(|x| x.to_string()).collect::<Vec<_>>().join(",")), m.ty(name, *code)));
                    }
                }
                let line = format!("PRINT {}", refs.iter().map(|(r, _)| format!("\"[\";{};\"]\"", r)).collect::<Vec<_>>().join(";"));
                let mark = s.mark();
                s.command(&line, 64);
                let got = transcript(s.events_since(mark), Norm::STD);
                let mut want = String::new();
                for (r, ty) in &refs {
                    match m.vals.get(r) {
                        Some(MV::N(x)) => want.push_str(&format!("[{}]", show_num(*x))),
                        Some(MV::S(t)) => want.push_str(&format!("[{}]", t)),
                        None => want.push_str(if *ty == 3 { "[]" } else { "[ 0 ]" }),
                    }
                }
                want.push_str("\nREADY.\n<STOPPED>");
                ctx.add("values_read_back", refs.len() as u64);
                if got != want {
                    ctx.violation(
                        "wrong-readback",
                        &format!("vars:readback:{}", kind),
                        &format!("{}\n printed {:?}\n the reference store gives {:?}", line, got, want),
                        &format!("{}\n{}", text, line),
                    );
                    return;
                }
            }
        }
        let text = script.join("\n");
        ctx.eval(&text, saw_array && saw_error);
        if ctx.want_sample() && saw_array && saw_error {
            ctx.sample(&text);
        }
    }
}

impl Model {
    fn unknown_dims(&mut self, name: &str) {
        self.unk_dims.insert(name.to_string());
    }
    fn dims_unknown(&self, name: &str) -> bool {
        self.unk_dims.contains(name)
    }
    fn clear_unknown_dims(&mut self, name: &str) {
        self.unk_dims.remove(name);
    }
}
