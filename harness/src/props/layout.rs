//! C11 — PRINT lays out output exactly as documented.

use crate::ctx::{Ctx, Tier};
use crate::drive::{drain_with_replies, transcript, Norm, Session, Stop};
use crate::model::val::{print_num, V};
use crate::mon;
use crate::rng::Rng;
use crate::Prop;

pub struct C11;

fn lit(v: &V) -> String {
    match v {
        V::I(n) => {
            if *n < 0 {
                format!("-{}", -(*n as i32))
            } else {
                format!("{}", n)
            }
        }
        V::S(x) => format!("{}!", format!("{:?}", x).trim_end_matches(".0")),
        V::D(x) => format!("{}#", format!("{:?}", x).trim_end_matches(".0")),
        V::Str(s) => format!("\"{}\"", s),
    }
}

fn rand_num(rng: &mut Rng, plain: bool) -> V {
    loop {
        let v = match rng.usize(8) {
            0 | 1 => V::I(*rng.pick(&[0i16, 1, -1, 7, 42, -300, 32767, -32767, 1000])),
            2 | 3 | 4 => {
                let m = rng.range(1, 9_999_999) as f32;
                let e = *rng.pick(&[1e-6f32, 1e-3, 1e-2, 0.1, 1.0, 1.0, 10.0, 1e3, 1e10, 1e30, 1e-30]);
                let x = m * e / 1000.0;
                V::S(if rng.chance(1, 3) { -x } else { x })
            }
            5 => V::S(*rng.pick(&[0.5f32, 0.1, 1.5, 3.14159, 100.0, 0.001, 16777216.0, 1e7, 9999999.0, 1e-4, -0.0, 0.0])),
            _ => {
                let m = rng.range(1, 999_999_999_999) as f64;
                let e = *rng.pick(&[1e-9f64, 1e-6, 1e-3, 1.0, 1.0, 1e3, 1e20, 1e-20, 1e100]);
                let x = m * e / 1e6;
                V::D(if rng.chance(1, 3) { -x } else { x })
            }
        };
        if !plain || print_num(&v).is_some() {
            return v;
        }
    }
}

fn sig_digits(s: &str) -> usize {
    let m: String = s.chars().take_while(|c| *c != 'E' && *c != 'e' && *c != 'D').filter(|c| c.is_ascii_digit()).collect();
    let t = m.trim_start_matches('0').trim_end_matches('0');
    t.len().max(1)
}

impl C11 {
    fn number_case(&self, rng: &mut Rng, ctx: &mut Ctx) {
        let v = rand_num(rng, false);
        let stmt = format!("PRINT {}", lit(&v));
        mon::journal(&stmt);
        let mut s = Session::new();
        s.drain(8);
        let mark = s.mark();
        if s.command(&stmt, 64) != Stop::Stopped {
            ctx.violation("no-stop", "print:no-stop", "no return to prompt", &stmt);
            return;
        }
        let out = transcript(s.events_since(mark), Norm::STD);
        ctx.eval(&stmt, !matches!(v, V::I(_)));
        ctx.count("numbers_printed");
        let body = match out.strip_suffix("\nREADY.\n<STOPPED>") {
            Some(b) => b.to_string(),
            None => {
                ctx.violation("format", "print:number-frame", &format!("{} printed {:?}", stmt, out), &stmt);
                return;
            }
        };
        let neg = match &v {
            V::I(n) => *n < 0,
            V::S(x) => *x < 0.0,
            V::D(x) => *x < 0.0,
            _ => false,
        };
        // the token is one sign column (blank or minus), the digits, one blank
        let middle: String = body.chars().skip(1).collect();
        if body.len() >= 3 && (middle.starts_with('-') || middle.starts_with('+') || middle.starts_with(' ') || middle.trim_end().contains(' ')) {
            ctx.violation(
                "sign-column",
                "print:number-token-shape",
                &format!("{} printed {:?}: a number is one sign column (blank or minus), the digits and one blank", stmt, body),
                &stmt,
            );
            return;
        }
        let is_neg_zero = match &v {
            V::S(x) => *x == 0.0 && x.is_sign_negative(),
            V::D(x) => *x == 0.0 && x.is_sign_negative(),
            _ => false,
        };
        if is_neg_zero {
            // which sign column a negative zero gets is not documented; the shape of the token is
            ctx.count("negative_zero_printed");
            if body != "-0 " && body != " 0 " {
                ctx.violation("sign-column", "print:negative-zero", &format!("{} printed {:?}", stmt, body), &stmt);
            }
            return;
        }
        let lead_ok = if neg { body.starts_with('-') } else { body.starts_with(' ') };
        if !lead_ok || !body.ends_with(' ') || body.len() < 3 {
            ctx.violation(
                "sign-column",
                "print:sign-or-trailing-space",
                &format!("{} printed {:?}: expected a leading {} and a trailing space", stmt, body, if neg { "minus" } else { "space" }),
                &stmt,
            );
            return;
        }
        let txt = body[1..body.len() - 1].to_string();
        let parsed: Result<f64, _> = txt.replace('D', "E").parse::<f64>();
        let (back_ok, shortest) = match (&v, parsed) {
            (V::I(n), Ok(p)) => (p == (*n as f64).abs(), txt == format!("{}", (*n as i32).abs())),
            (V::S(x), Ok(p)) => ((p as f32) == x.abs(), sig_digits(&txt) <= sig_digits(&format!("{:e}", x.abs()))),
            (V::D(x), Ok(p)) => (p == x.abs(), sig_digits(&txt) <= sig_digits(&format!("{:e}", x.abs()))),
            _ => (false, false),
        };
        if !back_ok {
            ctx.violation(
                "does-not-read-back",
                &format!("print:roundtrip:{}", match v { V::I(_) => "I", V::S(_) => "S", _ => "D" }),
                &format!("{} printed {:?}, which does not read back to the same value", stmt, body),
                &stmt,
            );
            return;
        }
        if !shortest {
            ctx.violation(
                "not-shortest",
                "print:shortest",
                &format!("{} printed {:?}, a shorter decimal reads back to the same value", stmt, body),
                &stmt,
            );
            return;
        }
        if let Some(m) = print_num(&v) {
            ctx.count("plain_notation_exact_text_checked");
            if m != body {
                ctx.violation(
                    "plain-text-differs",
                    "print:plain",
                    &format!("{} printed {:?}, expected {:?}", stmt, body, m),
                    &stmt,
                );
            }
        }
    }

    /// The cursor column is a count of characters, however many: ',' and TAB still act on it beyond 32767.
    fn long_column_case(&self, rng: &mut Rng, ctx: &mut Ctx) {
        let n = *rng.pick(&[128usize, 129, 130, 131, 140]);
        let extra = rng.usize(14);
        let lines = [
            format!("10 FOR I=1 TO {}:PRINT STRING$(255,\"*\");:NEXT:PRINT \"{}\";", n, "#".repeat(extra)),
            "20 PRINT ,\"X\";".to_string(),
            "30 PRINT TAB(5);\"Y\"".to_string(),
        ];
        let text = lines.join("\n");
        mon::journal(&text);
        let mut s = Session::new();
        s.drain(8);
        for l in &lines {
            s.command(l, 16);
        }
        let mark = s.mark();
        let st = s.command("RUN", 4000);
        let got = transcript(s.events_since(mark), Norm::STD);
        let col = n * 255 + extra;
        let want = format!("{}{}{}XY\nREADY.\n<STOPPED>", "*".repeat(n * 255), "#".repeat(extra), " ".repeat(14 - col % 14));
        ctx.eval(&text, true);
        ctx.count("long_column_sessions");
        if st != Stop::Stopped || got != want {
            let tail = |t: &str| t.chars().rev().take(60).collect::<String>().chars().rev().collect::<String>();
            ctx.violation(
                "layout-differs",
                "print:layout:column-beyond-32767",
                &format!("{}\n after {} characters on the line the output ends {:?}, expected {:?}", text, col, tail(&got), tail(&want)),
                &text,
            );
        }
    }

    /// The column after an INPUT reply is 0 however the prompt came about: shown by the program, or shown again by
    /// CONT after a break at the prompt, also when the direct line that continued had left the cursor mid-line.
    fn input_break_case(&self, rng: &mut Rng, ctx: &mut Ctx) {
        let w = "ABCDEFGHIJKLMNOPQRSTUVWXYZ".chars().take(rng.usize(20)).collect::<String>();
        let k = rng.range(0, 30) as usize;
        let lines = [format!("10 PRINT \"{}\";", w), "20 INPUT A".to_string(), format!("30 PRINT TAB({});\"X\";POS(0);A", k), "40 PRINT 1,2".to_string()];
        let mut script: Vec<String> = lines.to_vec();
        let mut s = Session::new();
        s.drain(8);
        for l in &lines {
            s.command(l, 16);
        }
        s.enter("RUN");
        script.push("RUN".into());
        if !matches!(s.drain(64), Stop::Input(..)) {
            ctx.violation("no-stop", "print:input-break:no-prompt", "no prompt", &script.join("\n"));
            return;
        }
        let rounds = rng.usize(3);
        for _ in 0..rounds {
            s.interrupt();
            script.push("<break at the prompt>".into());
            s.drain(64);
            let v = "abcdefghijklmnop".chars().take(rng.usize(12)).collect::<String>();
            let c = match rng.usize(4) {
                0 => "CONT".to_string(),
                1 => format!("PRINT \"{}\";:CONT", v),
                2 => format!("PRINT \"{}\",:CONT", v),
                _ => format!("PRINT TAB({});:CONT", 3 + v.len()),
            };
            script.push(c.clone());
            s.enter(&c);
            if !matches!(s.drain(64), Stop::Input(..)) {
                ctx.violation("no-stop", "print:input-break:no-prompt-after-cont", "CONT at the prompt did not show the prompt again", &script.join("\n"));
                return;
            }
        }
        script.push("<reply 7>".into());
        let text = script.join("\n");
        mon::journal(&text);
        let mark = s.mark();
        s.enter("7");
        let st = s.drain(64);
        let got = transcript(s.events_since(mark), Norm::STD);
        let want = format!("{}X {}  7 \n 1 {} 2 \nREADY.\n<STOPPED>", " ".repeat(k), k + 1, " ".repeat(11));
        ctx.eval(&text, rounds > 0);
        ctx.count("input_break_sessions");
        if st != Stop::Stopped || got != want {
            ctx.violation(
                "layout-differs",
                "print:layout:after-input-reply",
                &format!("{}\n printed {:?}\n expected {:?}", text, got, want),
                &text,
            );
        }
    }

    fn layout_case(&self, rng: &mut Rng, ctx: &mut Ctx) {
        let mut col = 0usize;
        let mut out = String::new();
        let mut stmts: Vec<String> = vec![];
        let emit = |s: &str, col: &mut usize, out: &mut String| {
            for c in s.chars() {
                if c == '\n' {
                    *col = 0
                } else {
                    *col += 1
                }
            }
            out.push_str(s);
        };
        let nst = rng.range(1, 4);
        // as one direct line, or as a program with one statement per line (then sometimes with the trace on:
        // the [n] markers are output like any other and move the cursor)
        let as_program = rng.chance(1, 3);
        let tron = as_program && rng.chance(1, 4);
        let mut n_inputs = 0usize;
        let mut kinds = std::collections::BTreeSet::new();
        for _ in 0..nst {
            if tron {
                let marker = format!("[{}]", (stmts.len() + 1) * 10);
                emit(&marker, &mut col, &mut out);
            }
            let mut text = String::from(if rng.coin() { "PRINT " } else { "?" });
            let n = rng.range(0, 6);
            let mut last_sep = true;
            for i in 0..n {
                // item
                match rng.usize(9) {
                    0 | 1 => {
                        let w = *rng.pick(&["A", "HELLO", "é→ß", "", "0123456789ABCD", "xy z"]);
                        text.push_str(&format!("\"{}\"", w));
                        emit(w, &mut col, &mut out);
                        kinds.insert("string");
                    }
                    2 | 3 => {
                        let v = rand_num(rng, true);
                        let l = lit(&v);
                        // a negative literal after another item would parse as a subtraction
                        if l.starts_with('-') && !last_sep {
                            text.push(';');
                        }
                        text.push_str(&l);
                        emit(&print_num(&v).unwrap_or_default(), &mut col, &mut out);
                        kinds.insert("number");
                    }
                    4 => {
                        let k = rng.range(0, 60);
                        text.push_str(&format!("TAB({})", k));
                        if k as usize > col {
                            let pad = " ".repeat(k as usize - col);
                            emit(&pad, &mut col, &mut out);
                        }
                        kinds.insert("TAB");
                    }
                    5 => {
                        let k = rng.range(0, 20);
                        text.push_str(&format!("SPC({})", k));
                        emit(&" ".repeat(k as usize), &mut col, &mut out);
                        kinds.insert("SPC");
                    }
                    7 if rng.chance(1, 3) => {
                        // a line feed in the middle of one string value
                        let (a, b) = (*rng.pick(&["TOTAL", "", "é→", "xy"]), *rng.pick(&["SUB", "", "ß", "0123456789"]));
                        match rng.usize(3) {
                            0 => {
                                // several line feeds in one value
                                text.push_str(&format!("\"{}\"+CHR$(10)+\"{}\"+CHR$(10)+\"{}\"", a, b, a));
                                emit(&format!("{}\n{}\n{}", a, b, a), &mut col, &mut out);
                            }
                            1 => {
                                let k = rng.range(2, 4) as usize;
                                text.push_str(&format!("STRING$({},10)+\"{}\"", k, b));
                                emit(&format!("{}{}", "\n".repeat(k), b), &mut col, &mut out);
                            }
                            _ => {
                                text.push_str(&format!("\"{}\"+CHR$(10)+\"{}\"", a, b));
                                emit(&format!("{}\n{}", a, b), &mut col, &mut out);
                            }
                        }
                        kinds.insert("newline-inside-string");
                    }
                    7 if rng.chance(1, 2) => {
                        // a line feed inside the output: the column starts again
                        text.push_str("CHR$(10)");
                        emit("\n", &mut col, &mut out);
                        kinds.insert("CHR$(10)");
                    }
                    6 => {
                        text.push_str("POS(0)");
                        let s = format!(" {} ", col);
                        emit(&s, &mut col, &mut out);
                        kinds.insert("POS");
                    }
                    _ => {
                        text.push(',');
                        let pad = " ".repeat(14 - col % 14);
                        emit(&pad, &mut col, &mut out);
                        kinds.insert("comma");
                        last_sep = true;
                        continue;
                    }
                }
                last_sep = false;
                // separator
                if i + 1 < n || rng.chance(1, 3) {
                    match rng.usize(4) {
                        0 => {
                            text.push(',');
                            let pad = " ".repeat(14 - col % 14);
                            emit(&pad, &mut col, &mut out);
                            kinds.insert("comma");
                            last_sep = true;
                        }
                        1 | 2 => {
                            text.push(';');
                            last_sep = true;
                        }
                        _ => {
                            // juxtaposition: only safe after a string
                            if text.ends_with('"') {
                                text.push(' ');
                            } else {
                                text.push(';');
                                last_sep = true;
                            }
                        }
                    }
                }
            }
            let t = text.trim_end().to_string();
            if !(t.ends_with(';') || t.ends_with(',')) {
                emit("\n", &mut col, &mut out);
            } else {
                kinds.insert("trailing-separator");
            }
            stmts.push(t);
            // an INPUT between the PRINTs: the prompt appears where the cursor is, and the reply's newline
            // puts the column back to 0
            if rng.chance(1, 8) {
                // a key is asked for: nothing is echoed, the cursor stays where it is
                if tron {
                    let marker = format!("[{}]", (stmts.len() + 1) * 10);
                    emit(&marker, &mut col, &mut out);
                }
                stmts.push("K9$=INKEY$".to_string());
                out.push_str("<INKEY>");
                kinds.insert("INKEY-between");
            }
            if rng.chance(1, 6) {
                let (st, prompt) = *rng.pick(&[("INPUT \"Q\";Z$", "Q? "), ("INPUT Z$", "? "), ("INPUT \"AB\";Z9", "AB? ")]);
                if tron {
                    let marker = format!("[{}]", (stmts.len() + 1) * 10);
                    emit(&marker, &mut col, &mut out);
                }
                stmts.push(st.to_string());
                out.push_str(&format!("<INPUT {:?} caps=true>", prompt));
                col = 0;
                n_inputs += 1;
                kinds.insert("INPUT-between");
            }
        }
        // the last statement may sit in the taken arm of an IF (a trailing ; or , then stands before ELSE)
        if rng.chance(1, 3) {
            if let Some(last) = stmts.pop() {
                kinds.insert("inside-IF-arm");
                stmts.push(if rng.coin() {
                    format!("IF 1 THEN {} ELSE PRINT \"NO\"", last)
                } else {
                    format!("IF 0 THEN PRINT \"NO\", ELSE {}", last)
                });
            }
        }
        // as one direct line, or as a program with one statement per line: the column carries over either way
        let separate = false;
        if as_program {
            kinds.insert("program-lines");
        }
        if tron {
            kinds.insert("trace-markers");
        }
        let script: Vec<String> = if as_program {
            let mut v: Vec<String> = stmts.iter().enumerate().map(|(i, t)| format!("{} {}", (i + 1) * 10, t)).collect();
            if tron {
                v.insert(0, "5 TRON".to_string());
            }
            v.push("RUN".to_string());
            v
        } else {
            vec![stmts.join(":")]
        };
        if script.iter().any(|l| l.len() > 900) {
            return;
        }
        let text = script.join("\n");
        mon::journal(&text);
        let mut s = Session::new();
        s.drain(8);
        let mut got = String::new();
        let replies: Vec<String> = (0..n_inputs).map(|_| "7".to_string()).collect();
        let mut used = 0usize;
        for l in &script {
            let mark = s.mark();
            s.enter(l);
            if drain_with_replies(&mut s, &replies, &mut used, 64) != Stop::Stopped {
                ctx.violation("no-stop", "print:no-stop", "no return to prompt", &text);
                return;
            }
            // typing a program line prints nothing
            if !as_program || l == "RUN" {
                got.push_str(&transcript(s.events_since(mark), Norm::STD));
            }
        }
        // model of what the prompt does between direct lines: forced newline if the column is not 0
        let mut want = String::new();
        if separate {
            // recompute per line: READY after each line resets the column
            // (re-run the model per statement with the column reset)
            want = String::new();
        }
        if separate {
            // direct lines: each ends with [newline if col != 0] READY. — so the carried column is always 0;
            // compare per line instead
            ctx.count("separate_direct_lines");
            // simplified: only check that every line's own output starts at column 0 model
            // (the carried-column case is exercised by the single-line form)
            ctx.evals += 1;
            let _ = want;
            return;
        }
        want.push_str(&out);
        if col != 0 {
            want.push('\n');
        }
        want.push_str("READY.\n<STOPPED>");
        ctx.eval(&text, kinds.len() >= 2);
        for k in &kinds {
            ctx.cover("item_kinds", k);
        }
        ctx.add("characters_compared", want.chars().count() as u64);
        if ctx.want_sample() && kinds.len() >= 3 {
            ctx.sample(&format!("{}\n--> {:?}", text, want));
        }
        if got != want {
            let k: Vec<&str> = kinds.iter().copied().collect();
            ctx.violation(
                "layout-differs",
                &format!("print:layout:{}", k.join("+")),
                &format!("{}\n printed {:?}\n expected {:?}\n {}", text, got, want, crate::props::modelprog::first_diff(&got, &want)),
                &text,
            );
        }
    }
}

impl Prop for C11 {
    fn cases(&self, tier: Tier) -> u64 {
        match tier {
            Tier::Quick => 900_000,
            Tier::Thorough => 12_000_000,
        }
    }

    fn rule(&self) -> &'static str {
        "Two streams. Numbers: Integers, Singles with 1..7 significant digits scaled by 1e-33..1e33, Doubles with 1..12 \
         digits scaled by 1e-15..1e100, positive and negative: `PRINT x` must give sign column + text + one blank; the \
         text must parse back to exactly the same value of that type, have no more significant digits than the \
         shortest round-tripping decimal, and in the plain-notation range equal the model's text. Layout: 1..4 PRINT \
         statements on one direct line (so the column carries across statements) with up to 6 items each from strings \
         (ASCII and multi-byte), plain-range numbers, TAB(0..60), SPC(0..20), POS(0), separated by ';', ',' or \
         juxtaposition, with and without trailing separator; INPUT statements in between and line feeds inside string values; the complete output must equal a column-tracking model \
         (zones of 14, TAB only forward, POS = characters since the last newline). Distinct = hash of the statement \
         text; non-trivial = a non-Integer number, or at least two different item kinds."
    }

    fn run_case(&mut self, idx: u64, rng: &mut Rng, ctx: &mut Ctx) {
        if idx % 512 == 9 {
            self.long_column_case(rng, ctx)
        } else if idx % 16 == 7 {
            self.input_break_case(rng, ctx)
        } else if idx % 2 == 0 {
            self.number_case(rng, ctx)
        } else {
            self.layout_case(rng, ctx)
        }
    }
}
