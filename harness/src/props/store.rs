//! C15 — the program store is an ordered map with exact LIST / DELETE ranges.
//! C05 — listing is faithful (list -> re-enter fixed point, AST equality, load path).

use crate::ctx::{Ctx, Tier};
use crate::drive::{Ev, Session, Stop};
use crate::gen::{self, Opts};
use crate::mon;
use crate::rng::Rng;
use crate::Prop;
use basic::lang::Line;
use basic::mach::Listing;
use std::collections::BTreeMap;

pub struct C15;

const UNIVERSE: [u32; 12] = [0, 1, 2, 3, 10, 11, 100, 32767, 32768, 65528, 65529, 65530];

fn pick_num(rng: &mut Rng, small: bool) -> u32 {
    if small {
        UNIVERSE[rng.usize(6)]
    } else if rng.chance(2, 3) {
        *rng.pick(&UNIVERSE)
    } else {
        rng.below(65540) as u32
    }
}

/// LIST/DELETE operand: text and the inclusive range it denotes (None = must be rejected).
fn range_operand(rng: &mut Rng, small: bool, for_delete: bool) -> (String, Option<(u32, u32)>) {
    let a = pick_num(rng, small);
    let b = pick_num(rng, small);
    let (text, r) = match rng.usize(5) {
        0 => (String::new(), if for_delete { None } else { Some((0, 65529)) }),
        1 => (format!("{}", a), Some((a, a))),
        2 => (format!("{}-", a), Some((a, 65529))),
        3 => (format!("-{}", b), Some((0, b))),
        _ => (format!("{}-{}", a, b), Some((a, b))),
    };
    let r = match r {
        Some((x, y)) if x > 65529 || y > 65529 || x > y => None,
        other => other,
    };
    (text, r)
}

/// One command of the exhaustive small-universe enumeration: text, and what it does to the model.
#[derive(Clone)]
enum XOp {
    Ins(u32),
    Bare(u32),
    /// LIST (false) / DELETE (true), operand text, inclusive range or None = must be rejected
    Range(bool, String, Option<(u32, u32)>),
}

/// (5 and 6 are neighbours: a range that ends on a line must not run on into the next number)
const XU: [u32; 4] = [0, 5, 6, 65529];
const XO: [u32; 7] = [0, 3, 5, 6, 7, 65529, 65530];

fn xops() -> Vec<XOp> {
    let mut v = vec![];
    for n in XU {
        v.push(XOp::Ins(n));
    }
    for n in [0u32, 5, 6, 7, 65529, 65530] {
        v.push(XOp::Bare(n));
    }
    for del in [false, true] {
        let norm = |r: Option<(u32, u32)>| match r {
            Some((x, y)) if x > 65529 || y > 65529 || x > y => None,
            o => o,
        };
        v.push(XOp::Range(del, String::new(), if del { None } else { Some((0, 65529)) }));
        if del {
            // DELETE without a number stays refused when something follows it on the line
            for t in [":PRINT 9", "'x", "-"] {
                v.push(XOp::Range(true, t.to_string(), None));
            }
        }
        for a in XO {
            v.push(XOp::Range(del, format!("{}", a), norm(Some((a, a)))));
            v.push(XOp::Range(del, format!("{}-", a), norm(Some((a, 65529)))));
            v.push(XOp::Range(del, format!("-{}", a), norm(Some((0, a)))));
            for b in XO {
                v.push(XOp::Range(del, format!("{}-{}", a, b), norm(Some((a, b)))));
            }
        }
    }
    v
}

impl C15 {
    /// Exhaustive: every history of `len` commands over the small universe (index k in mixed radix).
    fn exhaustive_case(&self, mut k: u64, len: usize, ctx: &mut Ctx) {
        let ops = xops();
        let n = ops.len() as u64;
        let mut hist: Vec<XOp> = vec![];
        for _ in 0..len {
            hist.push(ops[(k % n) as usize].clone());
            k /= n;
        }
        let mut model: BTreeMap<u32, String> = BTreeMap::new();
        let mut s = Session::new();
        s.drain(8);
        let mut script: Vec<String> = vec![];
        let mut uid = 0;
        for op in &hist {
            let mut expect_list: Option<Vec<String>> = None;
            let mut must_reject = false;
            let c = match op {
                XOp::Ins(n) => {
                    uid += 1;
                    model.insert(*n, format!("{} PRINT {}", n, uid));
                    format!("{} PRINT {}", n, uid)
                }
                XOp::Bare(n) => {
                    if *n <= 65529 {
                        model.remove(n);
                    } else {
                        must_reject = true;
                    }
                    format!("{}", n)
                }
                XOp::Range(del, t, r) => {
                    match (del, r) {
                        (false, Some((a, b))) => expect_list = Some(model.range(*a..=*b).map(|(_, v)| v.clone()).collect()),
                        (true, Some((a, b))) => {
                            let keys: Vec<u32> = model.range(*a..=*b).map(|(k, _)| *k).collect();
                            for k in keys {
                                model.remove(&k);
                            }
                        }
                        (_, None) => {
                            must_reject = true;
                            if !*del {
                                expect_list = Some(vec![]);
                            }
                        }
                    }
                    format!("{} {}", if *del { "DELETE" } else { "LIST" }, t).trim_end().to_string()
                }
            };
            script.push(c.clone());
            mon::journal(&script.join("\n"));
            let mark = s.mark();
            s.enter(&c);
            if s.drain(10_000) != Stop::Stopped {
                ctx.violation("no-stop", "store:x:no-stop", &format!("{:?} did not return to the prompt", c), &script.join("\n"));
                return;
            }
            let evs = s.events_since(mark).to_vec();
            let listed: Vec<String> = evs.iter().filter_map(|e| if let Ev::List(l, _) = e { Some(l.clone()) } else { None }).collect();
            let errors: Vec<String> = evs.iter().filter_map(|e| if let Ev::Error(d, _, _) = e { Some(d.clone()) } else { None }).collect();
            let got = s.listing_text();
            let want: Vec<String> = model.values().cloned().collect();
            let form = format!("{} {}", c.split(' ').next().unwrap_or(""), shape(c.split(' ').nth(1).unwrap_or("")));
            let bad = if got != want {
                Some(("store-diverged", format!("listing {:?}, ordered-map model {:?}", got, want)))
            } else if must_reject && errors.is_empty() {
                Some(("not-rejected", "must be rejected but no error was reported".to_string()))
            } else if !must_reject && !errors.is_empty() {
                Some(("spurious-error", format!("valid but reported {:?}", errors)))
            } else if let Some(exp) = &expect_list {
                if &listed != exp {
                    Some(("list-wrong", format!("listed {:?}, expected exactly {:?}", listed, exp)))
                } else {
                    None
                }
            } else {
                None
            };
            if let Some((kind, detail)) = bad {
                ctx.violation(kind, &format!("x:{}:{}", kind, form), &format!("after {:?}: {}", c, detail), &script.join("\n"));
                return;
            }
        }
        ctx.evals += 1;
        ctx.distinct_by_construction += 1;
        ctx.count("exhaustive_histories");
        ctx.max("exhaustive_history_length", len as u64);
    }
}

impl Prop for C15 {
    fn cases(&self, tier: Tier) -> u64 {
        let n = xops().len() as u64;
        match tier {
            // all histories of length 1 and 2, every 16th of length 3, then random ones
            Tier::Quick => n + n * n + n * n * n / 16 + 400_000,
            // all histories up to length 3
            Tier::Thorough => n + n * n + n * n * n + 300_000,
        }
    }

    fn rule(&self) -> &'static str {
        "Histories of 5..40 steps: numbered line (unique payload per write, so every listed line identifies the write \
         it came from), bare number, LIST and DELETE in the forms (none), n, n-, -n, a-b with endpoints on, between, \
         before and after existing lines, 0, 65529, and numbers above 65529 and inverted ranges (must be rejected and \
         change nothing), DELETE without a number followed by a separator, remark, ELSE or `-` (refused), and numbered \
         lines that fit as typed but not as listed (refused; the line stored under that number stays). Half of the histories use a 6-number universe, the others the whole range. After every step \
         get_listing() must equal the BTreeMap model; every LIST must emit exactly the model's lines of the range, \
         ascending. Distinct = hash of the history; non-trivial = at least 3 LIST/DELETE range commands executed on a \
         non-empty store. Before the random histories: EXHAUSTIVE enumeration of all histories of 1 and 2 commands \
         (quick: plus every 16th of length 3; thorough: all of length 3, ~4.1 million) over the universe {0,5,6,65529} \
         with numbered lines, bare numbers (present, absent, 65530) and LIST / DELETE in all five forms with \
         operands from {0,3,5,6,7,65529,65530}, plus DELETE without a number followed by `:PRINT 9`, a remark or `-` (must be refused), each checked the same way."
    }

    fn run_case(&mut self, idx: u64, rng: &mut Rng, ctx: &mut Ctx) {
        let n = xops().len() as u64;
        if idx < n {
            return self.exhaustive_case(idx, 1, ctx);
        } else if idx < n + n * n {
            return self.exhaustive_case(idx - n, 2, ctx);
        } else if ctx.tier == Tier::Thorough && idx < n + n * n + n * n * n {
            return self.exhaustive_case(idx - n - n * n, 3, ctx);
        } else if ctx.tier == Tier::Quick && idx < n + n * n + n * n * n / 16 {
            // a spread-out sixteenth of the length-3 histories
            let k = (idx - n - n * n) * 16 + rng.below(16);
            return self.exhaustive_case(k.min(n * n * n - 1), 3, ctx);
        }
        let small = rng.coin();
        let mut model: BTreeMap<u32, String> = BTreeMap::new();
        let mut s = Session::new();
        s.drain(8);
        let mut script: Vec<String> = vec![];
        let steps = rng.range(5, 40);
        let mut uid = 0;
        let mut ranged = 0;
        for _ in 0..steps {
            let before = model.clone();
            let mut expect_list: Option<Vec<String>> = None;
            let mut must_reject = false;
            let c: String = match rng.usize(12) {
                10 => {
                    // DELETE without a number is refused whatever follows it on the line
                    must_reject = true;
                    ctx.count("bare_delete_forms");
                    rng.pick(&["DELETE:PRINT 9", "DELETE : PRINT 9", "DELETE 'x", "DELETE REM x", "IF 1 THEN DELETE ELSE PRINT 5", "DELETE -", "DELETE:", "DELETE"]).to_string()
                }
                11 => {
                    // a numbered line that fits as typed but not as listed is refused, and whatever was stored
                    // under that number stays
                    let n = pick_num(rng, small).min(65529);
                    ctx.count("refused_long_lines");
                    must_reject = true;
                    format!("{} {}", n, "?:".repeat(180 + rng.usize(220)))
                }
                0..=3 => {
                    let n = pick_num(rng, small);
                    uid += 1;
                    let body = format!("PRINT {}", uid);
                    if n <= 65529 {
                        model.insert(n, format!("{} {}", n, body));
                    } else {
                        must_reject = true;
                    }
                    // the number may be preceded by blanks / tabs and need not be followed by a blank
                    match rng.usize(8) {
                        0 => format!("  {} {}", n, body),
                        1 => format!("\t{} {}", n, body),
                        2 => format!("{}{}", n, body),
                        3 => format!(" \t {}{}", n, body),
                        _ => format!("{} {}", n, body),
                    }
                }
                4 => {
                    let n = pick_num(rng, small);
                    if n <= 65529 {
                        model.remove(&n);
                    } else {
                        must_reject = true;
                    }
                    // a bare number followed (or preceded) by any amount of white space is still a bare number
                    if n <= 65529 {
                        ctx.count("bare_number_spellings");
                        match rng.usize(8) {
                            0 => format!("{} ", n),
                            1 => format!("{}  ", n),
                            2 => format!("{} \t", n),
                            3 => format!("{}\t  ", n),
                            4 => format!("  {}   ", n),
                            _ => format!("{}", n),
                        }
                    } else {
                        format!("{}", n)
                    }
                }
                5 | 6 | 7 => {
                    let (t, r) = range_operand(rng, small, false);
                    match r {
                        Some((a, b)) => expect_list = Some(model.range(a..=b).map(|(_, v)| v.clone()).collect()),
                        None => {
                            must_reject = true;
                            expect_list = Some(vec![])
                        }
                    }
                    if !model.is_empty() {
                        ranged += 1;
                    }
                    ctx.cover("range_forms", &format!("LIST {}", shape(&t)));
                    format!("LIST {}", t).trim_end().to_string()
                }
                _ => {
                    let (t, r) = range_operand(rng, small, true);
                    match r {
                        Some((a, b)) => {
                            let keys: Vec<u32> = model.range(a..=b).map(|(k, _)| *k).collect();
                            for k in keys {
                                model.remove(&k);
                            }
                        }
                        None => must_reject = true,
                    }
                    if !before.is_empty() {
                        ranged += 1;
                    }
                    ctx.cover("range_forms", &format!("DELETE {}", shape(&t)));
                    format!("DELETE {}", t).trim_end().to_string()
                }
            };
            script.push(c.clone());
            mon::journal(&script.join("\n"));
            let mark = s.mark();
            // the front end may hold a snapshot of the listing (its line editor does) while the command runs
            let held = if rng.coin() { Some(s.rt.get_listing()) } else { None };
            s.enter(&c);
            let st_cmd = s.drain(200_000);
            drop(held);
            if st_cmd != Stop::Stopped {
                ctx.violation("no-stop", "store:no-stop", &format!("{:?} did not return to the prompt", c), &script.join("\n"));
                return;
            }
            ctx.count("commands");
            let evs = s.events_since(mark).to_vec();
            let listed: Vec<String> = evs.iter().filter_map(|e| if let Ev::List(l, _) = e { Some(l.clone()) } else { None }).collect();
            let errors: Vec<String> = evs.iter().filter_map(|e| if let Ev::Error(d, _, _) = e { Some(d.clone()) } else { None }).collect();
            ctx.add("list_lines_observed", listed.len() as u64);
            let got = s.listing_text();
            let want: Vec<String> = model.values().cloned().collect();
            let sig_form = if c.len() > 300 {
                "refused-long-line".to_string()
            } else {
                format!("{} {}", c.trim_start().split(' ').next().unwrap_or("").trim_start_matches(|ch: char| ch.is_ascii_digit()), shape(c.trim_start().split(' ').nth(1).unwrap_or("")))
            };
            // the snapshot's single-line lookup (what the editor's TAB completion uses)
            {
                let snap = s.rt.get_listing();
                let probe = pick_num(rng, small) as usize;
                let got_line = snap.line(probe).map(|(t, _)| t);
                let want_line = if probe <= 65529 { model.get(&(probe as u32)).cloned() } else { None };
                ctx.count("single_line_lookups");
                if got_line != want_line {
                    ctx.violation(
                        "line-lookup",
                        "store:line-lookup",
                        &format!("after {:?} get_listing().line({}) is {:?}, the model has {:?}", c, probe, got_line, want_line),
                        &script.join("\n"),
                    );
                    return;
                }
            }
            if got != want {
                ctx.violation(
                    "store-diverged",
                    &format!("store:{}", sig_form),
                    &format!("after {:?} the listing is {:?}, the ordered-map model has {:?}; errors reported: {:?}", c, got, want, errors),
                    &script.join("\n"),
                );
                return;
            }
            if must_reject && errors.is_empty() && (c.len() > 300 || !c.chars().next().map(|ch| ch.is_ascii_digit()).unwrap_or(false)) {
                ctx.violation(
                    "not-rejected",
                    &format!("reject:{}", sig_form),
                    &format!("{:?} must be rejected but no error was reported", c),
                    &script.join("\n"),
                );
                return;
            }
            if let Some(exp) = expect_list {
                if listed != exp {
                    ctx.violation(
                        "list-wrong",
                        &format!("list:{}", sig_form),
                        &format!("{:?} listed {:?}, expected exactly {:?} (errors: {:?})", c, listed, exp, errors),
                        &script.join("\n"),
                    );
                    return;
                }
                if !must_reject && !errors.is_empty() {
                    ctx.violation(
                        "list-error",
                        &format!("list-error:{}", sig_form),
                        &format!("{:?} is a valid range but reported {:?}", c, errors),
                        &script.join("\n"),
                    );
                    return;
                }
            } else if !must_reject && !errors.is_empty() {
                ctx.violation(
                    "spurious-error",
                    &format!("spurious:{}", sig_form),
                    &format!("{:?} is valid but reported {:?}", c, errors),
                    &script.join("\n"),
                );
                return;
            }
        }
        // LIST as a statement of the program: it lists, then the program goes on; interrupted in the middle
        // and continued it lists the rest
        if model.len() >= 2 && rng.chance(1, 3) {
            let host = 65000u32;
            if !model.contains_key(&host) && model.keys().all(|k| *k < host) {
                let (t, r) = range_operand(rng, small, false);
                if let Some((a, b)) = r {
                    let line = format!("{} LIST {}:PRINT \"DONE\":END", host, t).replace("LIST :", "LIST:");
                    model.insert(host, line.clone());
                    s.enter(&line);
                    s.drain(16);
                    script.push(line.clone());
                    let listed_line = s.listing_text().last().cloned().unwrap_or_default();
                    model.insert(host, listed_line);
                    let exp: Vec<String> = model.range(a..=b).map(|(_, v)| v.clone()).collect();
                    let cut = if exp.len() >= 2 { 1 + rng.usize(exp.len() - 1) } else { usize::MAX };
                    script.push(format!("RUN {}  (interrupt after {} listed lines, then CONT)", host, cut));
                    mon::journal(&script.join("\n"));
                    let mark = s.mark();
                    s.enter(&format!("RUN {}", host));
                    let mut seen = 0usize;
                    let mut interrupted = false;
                    let mut stopped = false;
                    for _ in 0..100_000 {
                        match s.step_q(1) {
                            Some(Stop::Stopped) => {
                                if interrupted && seen <= cut {
                                    // the break: continue
                                    interrupted = false;
                                    seen = usize::MAX / 2;
                                    s.enter("CONT");
                                    continue;
                                }
                                stopped = true;
                                break;
                            }
                            Some(_) => break,
                            None => {}
                        }
                        let n_listed = s.events_since(mark).iter().filter(|e| matches!(e, Ev::List(..))).count();
                        if n_listed == cut && seen < cut {
                            seen = cut;
                            interrupted = true;
                            s.interrupt();
                        }
                    }
                    let evs = s.events_since(mark).to_vec();
                    let listed: Vec<String> = evs.iter().filter_map(|e| if let Ev::List(l, _) = e { Some(l.clone()) } else { None }).collect();
                    let done = evs.iter().any(|e| matches!(e, Ev::Print(p) if p.contains("DONE")));
                    ctx.count("in_program_lists");
                    if cut != usize::MAX {
                        ctx.count("in_program_lists_interrupted_and_continued");
                    }
                    if !stopped || listed != exp || !done {
                        ctx.violation(
                            "program-list",
                            "list:in-program",
                            &format!(
                                "LIST {} inside the program (interrupted after {} lines and continued): stopped={} listed {:?}, expected {:?}, DONE printed: {}",
                                t, cut, stopped, listed, exp, done
                            ),
                            &script.join("\n"),
                        );
                        return;
                    }
                }
            }
        }
        // the same numbered lines and bare numbers, fed to Listing::load_str (what LOAD does with a file): a bare
        // number removes its line there too
        {
            let mut listing = Listing::default();
            let mut m2: BTreeMap<u32, String> = BTreeMap::new();
            let mut fed = 0;
            for c in script.iter() {
                let t = c.trim_start();
                if !t.starts_with(|ch: char| ch.is_ascii_digit()) || t.len() > 300 {
                    continue;
                }
                let digits: String = t.chars().take_while(|ch| ch.is_ascii_digit()).collect();
                let n: u32 = match digits.parse() {
                    Ok(n) if n <= 65529 => n,
                    _ => continue,
                };
                let rest = t[digits.len()..].trim();
                if listing.load_str(t).is_err() {
                    continue;
                }
                fed += 1;
                if rest.is_empty() {
                    m2.remove(&n);
                } else {
                    m2.insert(n, format!("{} {}", n, rest));
                }
            }
            let got: Vec<String> = listing.lines().map(|l| l.to_string()).collect();
            let want: Vec<String> = m2.values().cloned().collect();
            ctx.add("lines_fed_to_load_str", fed);
            if got != want {
                ctx.violation(
                    "store-diverged",
                    "store:load_str",
                    &format!("the numbered lines and bare numbers of this history, fed to Listing::load_str, give {:?}; the ordered-map model has {:?}", got, want),
                    &script.join("\n"),
                );
                return;
            }
        }
        let text = script.join("\n");
        ctx.eval(&text, ranged >= 3);
        ctx.max("max_lines_in_store", model.len() as u64);
        if ctx.want_sample() && ranged > 5 {
            ctx.sample(&text);
        }
    }
}

/// "12-40" -> "n-n": the shape of a range operand, for signatures and coverage.
fn shape(t: &str) -> String {
    let mut o = String::new();
    let mut in_num = false;
    for c in t.chars() {
        if c.is_ascii_digit() {
            if !in_num {
                o.push('n');
            }
            in_num = true;
        } else {
            in_num = false;
            o.push(c);
        }
    }
    o
}

// ------------------------------------------------------------------------------------------ C05

pub struct C05;

const ALPHA: [&str; 46] = [
    // (characters a careless formatter would escape: backslash, TAB, control and zero-width characters)
    "\\", "\t", "\u{1}", "\u{feff}", "\u{301}", "\u{a0}",
    "1", "0", "9", "E", "e", "D", "d", ".", "+", "-", "!", "#", "%", "$", "&", "H", "\"", " ", ":", ";", ",", "(", ")",
    "<", ">", "=", "'", "?", "A", "x", "REM", "GO", "TO", "SUB", "PRINT", "IF", "THEN", "ELSE", "é", "*",
];

/// Debug text of an AST with the source columns removed.
fn ast_shape(line: &Line) -> Result<String, String> {
    match line.ast() {
        Ok(ast) => {
            let d = format!("{:?}", ast);
            // drop "<digits>..<digits>"
            let b: Vec<char> = d.chars().collect();
            let mut o = String::new();
            let mut i = 0;
            while i < b.len() {
                if b[i].is_ascii_digit() {
                    let mut j = i;
                    while j < b.len() && b[j].is_ascii_digit() {
                        j += 1;
                    }
                    if j + 1 < b.len() && b[j] == '.' && b[j + 1] == '.' && j + 2 < b.len() && b[j + 2].is_ascii_digit() {
                        let mut k = j + 2;
                        while k < b.len() && b[k].is_ascii_digit() {
                            k += 1;
                        }
                        // only when the whole thing is a bare range (preceded by a non-identifier char)
                        if i == 0 || !(b[i - 1].is_ascii_alphanumeric() || b[i - 1] == '.') {
                            o.push('_');
                            i = k;
                            continue;
                        }
                    }
                    for c in &b[i..j] {
                        o.push(*c);
                    }
                    i = j;
                    continue;
                }
                o.push(b[i]);
                i += 1;
            }
            Ok(o)
        }
        Err(e) => Err(crate::drive::error_name(&e.to_string())),
    }
}

impl C05 {
    fn check_line(&self, src: &str, canonical: bool, ctx: &mut Ctx) {
        mon::journal(src);
        basic::mach::verif::set_fuel(200_000);
        let l1 = Line::new(src);
        let t1 = l1.to_string();
        let l2 = Line::new(&t1);
        let t2 = l2.to_string();
        mon::unlimited_fuel();
        let a1 = ast_shape(&l1);
        let a2 = ast_shape(&l2);
        ctx.eval(src, a1.is_ok() && src.len() > 3);
        ctx.count(if a1.is_ok() { "lines_that_parse" } else { "lines_rejected" });
        if l1.number() != l2.number() {
            ctx.violation(
                "number-changed",
                "list:number",
                &format!("{:?} has number {:?}; its listing {:?} re-enters with number {:?}", src, l1.number(), t1, l2.number()),
                src,
            );
            return;
        }
        match (&a1, &a2) {
            (Ok(x), Ok(y)) => {
                if x != y {
                    ctx.violation(
                        "meaning-changed",
                        "list:ast",
                        &format!("{:?} lists as {:?} which parses differently:\n first: {}\n again: {}", src, t1, x, y),
                        src,
                    );
                    return;
                }
                if t1 != t2 {
                    ctx.violation(
                        "not-a-fixed-point",
                        "list:fixed-point",
                        &format!("{:?} lists as {:?}, which lists as {:?}", src, t1, t2),
                        src,
                    );
                    return;
                }
            }
            (Err(_), Err(_)) => {}
            (Ok(_), Err(e)) => {
                ctx.violation(
                    "listing-rejected",
                    "list:accept-reject",
                    &format!("{:?} parses, but its listing {:?} is rejected with {}", src, t1, e),
                    src,
                );
                return;
            }
            (Err(e), Ok(_)) => {
                ctx.violation(
                    "listing-accepted",
                    "list:reject-accept",
                    &format!("{:?} is rejected ({}), but its listing {:?} parses", src, e, t1),
                    src,
                );
                return;
            }
        }
        if canonical && t1.replace(' ', "") != src.trim_end().replace(' ', "") {
            ctx.violation(
                "text-changed",
                "list:canonical",
                &format!("canonical line {:?} lists as {:?}", src, t1),
                src,
            );
            return;
        }
        // SAVE / LOAD path for numbered lines
        if l1.number().is_some() && !l1.is_empty() {
            let mut listing = Listing::default();
            match listing.load_str(&t1) {
                Ok(()) => {
                    let back: Vec<String> = listing.lines().map(|l| l.to_string()).collect();
                    ctx.count("load_roundtrips");
                    if back.len() != 1 || back[0] != t2 {
                        ctx.violation(
                            "load-changed",
                            "list:load",
                            &format!("saved text {:?} loads as {:?}", t1, back),
                            src,
                        );
                    }
                }
                Err(e) => {
                    ctx.violation(
                        "load-rejected",
                        "list:load-error",
                        &format!("saved text {:?} of {:?} cannot be loaded: {}", t1, src, e),
                        src,
                    );
                }
            }
        }
    }
}

impl C05 {
    /// Lines at the line limit, through the real entry path (Runtime::enter), LIST text and the
    /// SAVE -> LOAD path (Listing::load_str): whatever was accepted must load again.
    fn long_line_case(&self, rng: &mut Rng, ctx: &mut Ctx) {
        use crate::drive::{Session, Stop};
        let num = *rng.pick(&[1u32, 10, 100, 1000, 65529]);
        let kind = rng.usize(6);
        let target = 1018 + rng.usize(10); // typed length in bytes: 1018..1027 around the 1024 limit
        let head = match kind {
            0 => format!("{} REM ", num),
            1 => format!("{} PRINT \"", num),
            2 => format!("{} A=1", num),
            3 => format!("{} '", num),
            4 => format!("{} ?", num),   // `?` lists as PRINT: the listed text is longer than the typed one
            _ => format!("{} A=7MOD3", num), // lists with blanks inserted around MOD
        };
        let mut line = head.clone();
        let unit = match kind {
            0 | 3 => *rng.pick(&["x", "é", "REM ", "\""]),
            1 => *rng.pick(&["x", "é", "→"]),
            2 => "+1",
            4 => ":?",
            _ => "+7MOD3",
        };
        while line.len() + unit.len() <= target {
            line.push_str(unit);
        }
        if kind == 1 && rng.coin() && line.len() < target {
            line.push('"');
        }
        mon::journal(&line);
        let mut s = Session::new();
        s.drain(8);
        // half of the time the number is already in use: a refused line must leave the old one alone
        let old_line = if rng.coin() { Some(format!("{} PRINT 1", num)) } else { None };
        if let Some(o) = &old_line {
            s.enter(o);
            s.drain(16);
        }
        let mark = s.mark();
        s.enter(&line);
        if s.drain(16) != Stop::Stopped {
            ctx.violation("no-stop", "list:long:no-stop", "no return to the prompt", &line);
            return;
        }
        let rejected = s.events_since(mark).iter().any(|e| matches!(e, crate::drive::Ev::Error(d, _, _) if d.contains("LINE BUFFER OVERFLOW")));
        let listed = s.listing_text();
        ctx.eval(&line, true);
        ctx.count("long_lines_entered");
        ctx.max("longest_line_accepted_bytes", if rejected { 0 } else { line.len() as u64 });
        if rejected {
            let want: Vec<String> = old_line.iter().cloned().collect();
            if listed != want {
                ctx.violation(
                    "refused-line-changed-program",
                    "list:long:refused-changed",
                    &format!("the {}-byte line was refused, but the listing is now {:?}; before it was {:?}", line.len(), listed.iter().map(|l| &l[..l.len().min(30)]).collect::<Vec<_>>(), want),
                    &line,
                );
                return;
            }
        }
        if line.len() > 1024 {
            if !rejected {
                ctx.violation("over-limit-accepted", "list:long:over-limit", &format!("a line of {} bytes was accepted", line.len()), &line);
            }
            return;
        }
        // a line whose listing (keywords in full, blanks between words) would exceed the limit may be
        // refused when entered; a line that lists within the limit must be stored
        let would_list = Line::new(&line).to_string().len();
        if rejected && would_list > 1024 {
            ctx.count("long_lines_refused_because_the_listing_would_exceed_the_limit");
            return;
        }
        if rejected || listed.len() != 1 {
            ctx.violation(
                "within-limit-rejected",
                "list:long:rejected",
                &format!("a line of {} bytes (limit 1024) was not stored: listing {:?}", line.len(), listed.iter().map(|l| l.len()).collect::<Vec<_>>()),
                &line,
            );
            return;
        }
        let t = &listed[0];
        ctx.max("longest_listed_text_bytes", t.len() as u64);
        let mut listing = Listing::default();
        let expanded = t.len() > line.len();
        match listing.load_str(t) {
            Ok(()) => {
                let back: Vec<String> = listing.lines().map(|l| l.to_string()).collect();
                if back.len() != 1 || &back[0] != t {
                    ctx.violation("load-changed", "list:long:load", &format!("saved text ({} bytes) loads as {:?}", t.len(), back.iter().map(|l| l.len()).collect::<Vec<_>>()), &line);
                }
            }
            Err(e) => {
                ctx.violation(
                    "load-rejected",
                    if expanded && t.len() > 1024 { "list:long:load-error:listing-longer-than-limit" } else { "list:long:load-error" },
                    &format!(
                        "a stored line typed with {} bytes lists / saves as {} bytes and cannot be loaded again: {}",
                        line.len(),
                        t.len(),
                        e
                    ),
                    &line,
                );
            }
        }
    }
}

impl Prop for C05 {
    fn cases(&self, tier: Tier) -> u64 {
        match tier {
            Tier::Quick => 90_000,
            Tier::Thorough => 1_000_000,
        }
    }

    fn rule(&self) -> &'static str {
        "Source lines from four streams: (a) canonical renderings of generated programs (must list unchanged up to \
         blanks), (b) random respellings, (c) those with 1..3 random character deletions/insertions/replacements from \
         the lexically significant alphabet, (d) token soup of 1..8 alphabet symbols (digits, exponent letters, type \
         suffixes, &H, quotes, operators, keywords, a non-ASCII letter) with and without a line number; the thorough \
         tier additionally enumerates ALL strings of up to 4 symbols over a 16-symbol core alphabet. For each: \
         Line::new(s).to_string() is re-entered; number equal, AST equal modulo columns or rejected both times, \
         second listing identical to the first, and Listing::load_str of the saved text gives the same line. \
         Distinct = hash of the source line; non-trivial = it parses and has more than 3 characters."
    }

    fn cpu_budget_s(&self) -> u64 {
        20
    }

    fn run_case(&mut self, idx: u64, rng: &mut Rng, ctx: &mut Ctx) {
        if ctx.tier == Tier::Thorough && idx < 69_904 {
            // exhaustive short strings over a core alphabet: lengths 1..4 over 16 symbols
            let core = ["1", "E", "e", "D", "d", ".", "+", "-", "!", "#", "%", "&", "H", "\"", " ", "A"];
            let mut k = idx;
            let mut len = 1;
            let mut block = 16u64;
            while k >= block {
                k -= block;
                len += 1;
                block *= 16;
            }
            let mut body = String::new();
            for _ in 0..len {
                body.push_str(core[(k % 16) as usize]);
                k /= 16;
            }
            ctx.count("exhaustive_short_strings");
            self.check_line(&format!("10 A={}", body), false, ctx);
            self.check_line(&format!("10 ?{}", body), false, ctx);
            return;
        }
        if idx == 0 {
            // fixed corpus, run in every tier: the witness of the recorded finding KF-C05-adjacent-...
            // (kept in the workload so that the KNOWN-FINDING line appears in every run and disappears when repaired)
            self.check_line("PRINT ELSESUB+==>-e", false, ctx);
        }
        if idx % 40 == 39 {
            return self.long_line_case(rng, ctx);
        }
        if idx % 40 == 38 {
            // remark text is kept character for character, whatever it starts with
            for _ in 0..6 {
                let n = rng.range(0, 65529);
                let kw = *rng.pick(&["REM", "rem", "Rem", "'"]);
                let first = *rng.pick(&["2", "1)", "$", "!", "#", "%", " ", "  ", ":", ";", "\"", "-", "=", "é", "(", "&H", "."]);
                let mut rest = String::from(first);
                for _ in 0..rng.range(0, 6) {
                    rest.push_str(*rng.pick(&["nd pass", ": don't touch", " GOTO 10", "\"q", " x", "é→", "  ", "$", "2", "rem", "ELSE", "'", "?"]));
                }
                let src = format!("{} {}{}", n, kw, rest);
                let want = format!("{} {}{}", n, if kw == "'" { "'" } else { "REM" }, rest);
                let want = want.trim_end_matches([' ', '\t']).to_string();
                mon::journal(&src);
                let t1 = Line::new(&src).to_string();
                ctx.count("remark_texts_compared");
                ctx.eval(&src, true);
                if t1 != want {
                    ctx.violation("remark-changed", "list:remark-text", &format!("{:?} lists as {:?}: the remark text is not preserved (expected {:?})", src, t1, want), &src);
                    return;
                }
                self.check_line(&src, false, ctx);
            }
            return;
        }
        let o = Opts { data: rng.coin(), func: rng.coin(), tron: false, stop: true, max_lines: 20, input: rng.coin(), frac: rng.coin(), strings: rng.coin(), arrays: rng.coin() };
        let p = gen::generate(rng, o);
        let canon = gen::render(&p);
        let spelled = gen::render_spelled(&p, rng.next_u64());
        for l in canon.iter().take(12) {
            self.check_line(l, true, ctx);
        }
        for l in spelled.iter().take(12) {
            self.check_line(l, false, ctx);
            // mutated
            let mut chars: Vec<char> = l.chars().collect();
            for _ in 0..rng.range(1, 3) {
                if chars.is_empty() {
                    break;
                }
                let i = rng.usize(chars.len());
                match rng.usize(3) {
                    0 => {
                        chars.remove(i);
                    }
                    1 => {
                        let ins: Vec<char> = rng.pick(&ALPHA).chars().collect();
                        for (k, c) in ins.into_iter().enumerate() {
                            chars.insert(i + k, c);
                        }
                    }
                    _ => chars[i] = rng.pick(&ALPHA).chars().next().unwrap_or('1'),
                }
            }
            let m: String = chars.into_iter().collect();
            self.check_line(&m, false, ctx);
        }
        for _ in 0..12 {
            let n = rng.range(1, 8);
            let mut t = if rng.coin() { format!("{} ", rng.range(0, 70000)) } else { String::new() };
            t.push_str(*rng.pick(&["", "A=", "PRINT ", "?", "IF ", "DATA ", "REM ", "A$="]));
            for _ in 0..n {
                t.push_str(*rng.pick(&ALPHA[..]));
            }
            if ctx.want_sample() && n > 4 {
                ctx.sample(&t);
            }
            self.check_line(&t, false, ctx);
        }
    }
}
