//! C19 — compile-time diagnostics point into the listed line and block execution.

use crate::ctx::{Ctx, Tier};
use crate::drive::{drain_with_replies, error_name, Ev, Session, Stop};
use crate::gen::{self, Item, Line, Opts, Render, Spell, St, E};
use crate::mon;
use crate::rng::Rng;
use crate::Prop;

pub struct C19;

fn typed(lines: &[String]) -> Session {
    let mut s = Session::new();
    s.drain(16);
    for l in lines {
        s.enter(l);
        s.drain(16);
    }
    s
}

fn run(s: &mut Session, c: &str) -> (Stop, Vec<Ev>) {
    let mark = s.mark();
    s.enter(c);
    let mut used = 0;
    let budget = if s.quantum < 100 { 60_000 } else { 4_000 };
    let stop = drain_with_replies(s, &[], &mut used, budget);
    (stop, s.events_since(mark).to_vec())
}

fn chars_at(text: &str, r: &std::ops::Range<usize>) -> Option<String> {
    let c: Vec<char> = text.chars().collect();
    if r.start <= r.end && r.end <= c.len() {
        Some(c[r.start..r.end].iter().collect())
    } else {
        None
    }
}

/// The faulty reference sits in the direct line itself: the diagnostic names no program line and its range
/// covers exactly the missing number (or the unmatched keyword) in the listed text of what was typed.
fn direct_fault_case(rng: &mut Rng, ctx: &mut Ctx) {
    let with_program = rng.coin();
    let mut s = typed(&if with_program { vec!["10 PRINT \"P\"".to_string(), "20 END".to_string()] } else { vec![] });
    s.quantum = *rng.pick(&[1usize, 2, 3, 5000, 5000]);
    let missing = *rng.pick(&[0u32, 5, 15, 777, 9999, 65529]);
    let pre = *rng.pick(&["", "A=1:", "PRINT \"é→\";:", "?\"x\":", "Z$=\"ü\"+\"ß\":"]);
    if rng.chance(1, 5) {
        // faults that the code generator finds in the direct line (wrong argument counts, reserved names,
        // statements that are illegal there): no program line is to blame, the range lies in what was typed
        let src = format!("{}{}", pre, rng.pick(&["A$=LEFT$(\"X\")", "DIM SIN(3)", "PRINT LEN(1,2)", "DATA 1", "DEF FNA(X)=X", "PRINT MID$(\"A\")", "PRINT CHR$()", "K=ASC(\"A\",2)"]));
        let text = format!("{}{}", if with_program { "10 PRINT \"P\"\n20 END\n" } else { "" }, src);
        mon::journal(&text);
        let listed = basic::lang::Line::new(&src).to_string();
        let (st, evs) = run(&mut s, &src);
        ctx.eval(&text, true);
        ctx.count("direct_line_codegen_faults");
        let errors: Vec<(String, Option<u16>, std::ops::Range<usize>)> =
            evs.iter().filter_map(|e| if let Ev::Error(d, l, c) = e { Some((d.clone(), *l, c.clone())) } else { None }).collect();
        let bad = errors.iter().find(|(_, l, c)| l.is_some() || chars_at(&listed, c).is_none());
        if st != Stop::Stopped || errors.is_empty() || bad.is_some() {
            ctx.violation(
                "range-wrong",
                "diag:direct-line:codegen",
                &format!("{:?} (listed {:?}) must be refused with a diagnostic that names no program line and lies inside the typed text; got {:?}", src, listed, errors),
                &text,
            );
        }
        return;
    }
    let (tail, expect, code): (String, String, &str) = match rng.usize(9) {
        0 => (format!("GOTO {}", missing), missing.to_string(), "UNDEFINED LINE"),
        1 => (format!("GOSUB {}", missing), missing.to_string(), "UNDEFINED LINE"),
        2 => (format!("IF 1 THEN {}", missing), missing.to_string(), "UNDEFINED LINE"),
        3 => (format!("IF 0 THEN PRINT 1 ELSE {}", missing), missing.to_string(), "UNDEFINED LINE"),
        4 => (format!("ON 1 GOTO {},{}", if with_program { "10" } else { "4" }, missing), missing.to_string(), "UNDEFINED LINE"),
        5 => (format!("RESTORE {}", missing), missing.to_string(), "UNDEFINED LINE"),
        6 => (format!("RUN {}", missing), missing.to_string(), "UNDEFINED LINE"),
        7 => ("K=1:WEND".to_string(), "WEND".to_string(), "WEND WITHOUT WHILE"),
        _ => ("WHILE K<3:K=K+1".to_string(), "WHILE".to_string(), "WHILE WITHOUT WEND"),
    };
    if with_program && (missing == 10 || missing == 20) {
        return;
    }
    let src = format!("{}{}", pre, tail);
    let text = format!("{}{}\n(execute({}) slices)", if with_program { "10 PRINT \"P\"\n20 END\n" } else { "" }, src, s.quantum);
    mon::journal(&text);
    let listed = basic::lang::Line::new(&src).to_string();
    let (st, evs) = run(&mut s, &src);
    ctx.eval(&text, true);
    ctx.count("direct_line_faults");
    let errors: Vec<(String, Option<u16>, std::ops::Range<usize>)> =
        evs.iter().filter_map(|e| if let Ev::Error(d, l, c) = e { Some((d.clone(), *l, c.clone())) } else { None }).collect();
    let hit = errors.iter().find(|(d, l, col)| error_name(d) == code && l.is_none() && chars_at(&listed, col).as_deref() == Some(expect.as_str()));
    let ok = hit.is_some();
    if st != Stop::Stopped || !ok {
        ctx.violation(
            "range-wrong",
            &format!("diag:direct-line:{}", code.split(' ').next().unwrap_or("")),
            &format!("{:?} (listed {:?}) must report {} without a line number and with a range covering exactly {:?}; got {:?} -> {:?}", src, listed, code, expect, errors, hit.and_then(|(_, _, c)| chars_at(&listed, c))),
            &text,
        );
        return;
    }
    // the program in memory is untouched by the refused direct line
    if with_program {
        let (_, ev2) = run(&mut s, "RUN");
        if !ev2.iter().any(|e| matches!(e, Ev::Print(p) if p.contains('P'))) || ev2.iter().any(|e| matches!(e, Ev::Error(..))) {
            ctx.violation("direct-blocked", "diag:direct-line:program-hurt", &format!("after the refused direct line, RUN gave {:?}", ev2), &format!("{}\nRUN", text));
        }
    }
}

impl Prop for C19 {
    fn cases(&self, tier: Tier) -> u64 {
        match tier {
            Tier::Quick => 240_000,
            Tier::Thorough => 3_000_000,
        }
    }

    fn rule(&self) -> &'static str {
        "A generated link-clean program gets exactly one injected fault: a reference to a missing line in one of GOTO, \
         GOSUB, ON..GOTO list, ON..GOSUB list, THEN n, ELSE n, THEN GOTO n, RESTORE n (placed after a PRINT of a \
         multi-byte literal on the same line in half of the cases), a removed WEND, a removed WHILE, an extra WEND, or \
         token damage (stray parenthesis/keyword/operator). Then RUN, RUN n, GOTO n, GOSUB n (random choice) is \
         entered. Oracle: every reported diagnostic names an existing line (or no line), its range lies inside the \
         listed text of that line; for UNDEFINED LINE the characters in the range are exactly the missing number, for \
         WHILE/WEND faults exactly the keyword; LIST of the line reports the same range; no PRINT event of the program \
         occurs; afterwards PRINT 7*6 prints 42. Distinct = hash of program + fault + command; all cases non-trivial."
    }

    fn run_case(&mut self, _idx: u64, rng: &mut Rng, ctx: &mut Ctx) {
        if _idx % 16 == 3 {
            return direct_fault_case(rng, ctx);
        }
        let o = Opts { data: rng.coin(), func: rng.chance(1, 4), tron: false, stop: true, max_lines: 24, input: false, frac: rng.coin(), strings: rng.coin(), arrays: rng.coin() };
        let mut p = gen::generate(rng, o);
        p.number(if rng.chance(1, 6) { 0 } else { rng.range(1, 60) as u16 }, *rng.pick(&[2u16, 5, 10]));
        // now and then the last line of the program is the highest legal line
        if rng.chance(1, 4) {
            let top = p.nums.iter().max_by_key(|(_, v)| **v).map(|(k, _)| *k);
            if let Some(k) = top {
                p.nums.insert(k, 65_529);
                ctx.count("last_line_is_65529");
            }
        }
        let used: Vec<u16> = p.nums.values().copied().collect();
        // a number that is not a line
        let missing: u16 = loop {
            let c: u32 = match rng.usize(4) {
                3 => 0,
                0 => *rng.pick(&used) as u32 + 1,
                1 => rng.range(0, 65_529) as u32,
                _ => *used.iter().max().unwrap_or(&0) as u32 + rng.range(1, 999) as u32,
            };
            if c <= 65_529 && !used.contains(&(c as u16)) {
                break c as u16;
            }
        };
        let dangling = 1_000_000usize;
        p.nums.insert(dangling, missing);
        let ok_label = p.lines[rng.usize(p.lines.len())].label;
        let kind = rng.usize(12);
        let mut expect_text: Option<String> = None;
        let mut expect_code: Option<&str> = None;
        let host: usize;
        let mut then_short = false;
        let what: &str;
        match kind {
            0..=7 => {
                // host line without REM so that the statement is compiled
                let cands: Vec<usize> = (0..p.lines.len())
                    .filter(|i| !p.lines[*i].sts.iter().any(|s| matches!(s, St::Rem(..) | St::Data(..))))
                    .collect();
                if cands.is_empty() {
                    return;
                }
                host = *rng.pick(&cands);
                let c = E::Bin(Box::new(E::V("A".into())), "<", Box::new(E::N(3)));
                let (st, w): (St, &str) = match kind {
                    0 => (St::Goto(dangling), "GOTO"),
                    1 => (St::Gosub(dangling), "GOSUB"),
                    2 => (St::On(E::V("A".into()), false, vec![ok_label, dangling]), "ON-GOTO"),
                    3 => (St::On(E::V("A".into()), true, vec![dangling, ok_label]), "ON-GOSUB"),
                    4 => {
                        then_short = true;
                        (St::If(c, vec![St::Goto(dangling)], None), "THEN-n")
                    }
                    5 => {
                        then_short = true;
                        (St::If(c, vec![St::Let("A".into(), E::N(1), false)], Some(vec![St::Goto(dangling)])), "ELSE-n")
                    }
                    6 => (St::If(c, vec![St::Goto(dangling)], None), "THEN-GOTO"),
                    _ => (St::Restore(Some(dangling)), "RESTORE"),
                };
                what = w;
                let old = std::mem::take(&mut p.lines[host].sts);
                let mut sts = vec![];
                // something in front of the fault on the same line whose listed width could be miscounted:
                // multi-byte text, octal / hex / exponent / suffixed literals, a string assignment
                match rng.usize(8) {
                    0 | 1 | 2 => sts.push(St::Print(vec![Item::S("é→ß".into())], true)),
                    3 => sts.push(St::Let("A".into(), E::Lit("&17", 15.0), false)),
                    4 => sts.push(St::Let("A".into(), E::Bin(Box::new(E::Lit("&H1F", 31.0)), "+", Box::new(E::Lit("2D0", 2.0))), false)),
                    5 => sts.push(St::Print(vec![Item::E(E::Lit("1E1", 10.0)), Item::S("ü".into()), Item::E(E::Lit("7%", 7.0))], true)),
                    _ => {}
                }
                if matches!(st, St::If(..)) {
                    // IF swallows the rest of the line: put it last
                    let mut o2: Vec<St> = old.into_iter().filter(|s| !matches!(s, St::If(..))).collect();
                    sts.append(&mut o2);
                    sts.push(st);
                } else {
                    sts.push(st);
                    let mut o2 = old;
                    sts.append(&mut o2);
                }
                p.lines[host].sts = sts;
                expect_text = Some(missing.to_string());
                expect_code = Some("UNDEFINED LINE");
            }
            8 | 9 => {
                // remove a WHILE or a WEND
                let want_while = kind == 8;
                let pos = p.lines.iter().position(|l| l.sts.iter().any(|s| if want_while { matches!(s, St::While(_)) } else { matches!(s, St::Wend) }));
                match pos {
                    Some(i) => {
                        p.lines[i].sts.retain(|s| if want_while { !matches!(s, St::While(_)) } else { !matches!(s, St::Wend) });
                        if p.lines[i].sts.is_empty() {
                            p.lines[i].sts.push(St::Rem(String::new(), false));
                        }
                        // the partner is now unmatched; which line that is depends on nesting, so only the text is fixed
                        host = usize::MAX;
                        expect_text = Some(if want_while { "WEND".into() } else { "WHILE".into() });
                        what = if want_while { "removed-WHILE" } else { "removed-WEND" };
                    }
                    None => {
                        host = rng.usize(p.lines.len());
                        p.lines[host].sts.insert(0, St::Wend);
                        expect_text = Some("WEND".into());
                        what = "extra-WEND";
                    }
                }
            }
            10 => {
                host = rng.usize(p.lines.len());
                p.lines[host].sts.insert(0, St::Wend);
                expect_text = Some("WEND".into());
                what = "extra-WEND";
            }
            _ => {
                host = rng.usize(p.lines.len());
                what = "token-damage";
            }
        }
        let mut r = Render::new(&p, Spell::default());
        r.then_short = then_short;
        let mut lines = r.lines();
        if what == "token-damage" {
            let junk = *rng.pick(&[")", "(", "THEN", "=", ",,", "TO", "\"", "é", "NEXT )", "+*"]);
            let l = &lines[host];
            let split = l.find(' ').map(|i| i + 1).unwrap_or(l.len());
            let body: Vec<char> = l[split..].chars().collect();
            let at = rng.usize(body.len() + 1);
            let mut nb: String = body[..at].iter().collect();
            nb.push_str(junk);
            nb.extend(body[at..].iter());
            lines[host] = format!("{}{}", &l[..split], nb);
        }
        let _ = Line { label: 0, sts: vec![] };
        let target = if host != usize::MAX { p.num(p.lines[host].label) } else { p.num(p.lines[0].label) };
        let cmd = match rng.usize(5) {
            0 => format!("RUN {}", p.num(p.lines[rng.usize(p.lines.len())].label)),
            1 => format!("GOTO {}", p.num(p.lines[rng.usize(p.lines.len())].label)),
            2 => format!("GOSUB {}", target),
            _ => "RUN".to_string(),
        };
        // sometimes the program has a token-level error as well, in a line of its own behind everything else
        let mut lines = lines;
        let mut two_kinds = false;
        if what != "token-damage" && rng.chance(1, 4) {
            let top = lines.iter().filter_map(|l| l.split(' ').next().and_then(|n| n.parse::<u32>().ok())).max().unwrap_or(0);
            if top < 65_000 {
                lines.push(format!("{} PRINT )", top + 7));
                // (while a line does not parse, the link-time diagnostics are not shown: only "some
                // diagnostic, nothing runs, ranges inside the listed text" is asked of such a program)
                two_kinds = true;
            }
        }
        let text = format!("{}\n{}", lines.join("\n"), cmd);
        mon::journal(&text);
        let mut s = typed(&lines);
        if rng.chance(1, 3) {
            // the first direct statement after typing the program does not enter it: it simply works
            let (_, ev0) = run(&mut s, "PRINT 7*6");
            ctx.count("direct_statements_before_the_run");
            let ok = ev0.iter().any(|e| matches!(e, Ev::Print(p) if p.contains("42"))) && !ev0.iter().any(|e| matches!(e, Ev::Error(..)));
            if !ok {
                ctx.violation(
                    "direct-blocked",
                    "diag:direct-first",
                    &format!("`PRINT 7*6` typed right after the faulty program gave {:?} (expected 42 and no error)", ev0),
                    &format!("{}\nPRINT 7*6", lines.join("\n")),
                );
                return;
            }
        }
        // the front end may hand out the instruction budget in any slices: the gate must hold for each
        s.quantum = *rng.pick(&[1usize, 1, 2, 3, 4, 5, 7, 12, 5000, 5000, 5000, 5000]);
        let text = format!("{}\n(execute({}) slices)", text, s.quantum);
        let listing = s.listing_text();
        let (st, evs) = run(&mut s, &cmd);
        if st != Stop::Stopped {
            if what == "token-damage" {
                // the damage produced another valid program that happens to loop
                ctx.count("damage_gave_looping_program");
                return;
            }
            ctx.violation("no-stop", "diag:no-stop", "did not return to the prompt", &text);
            return;
        }
        ctx.eval(&text, true);
        ctx.cover("fault_kinds", what);
        ctx.cover("entry_commands", cmd.split(' ').next().unwrap_or(""));
        let errors: Vec<(String, Option<u16>, std::ops::Range<usize>)> =
            evs.iter().filter_map(|e| if let Ev::Error(d, l, c) = e { Some((d.clone(), *l, c.clone())) } else { None }).collect();
        ctx.add("diagnostics_observed", errors.len() as u64);
        if errors.is_empty() {
            if what == "token-damage" {
                // the damage may have produced another valid line
                ctx.count("damage_still_valid");
                return;
            }
            ctx.violation("no-diagnostic", &format!("diag:none:{}", what), &format!("fault {} was not diagnosed on {:?}", what, cmd), &text);
            return;
        }
        // nothing of the program ran
        // token damage may leave a valid program that fails at run time (prints, then one error):
        // there only output *after* a diagnostic shows execution despite compile-time errors
        let first_err = evs.iter().position(|e| matches!(e, Ev::Error(..))).unwrap_or(0);
        let from = if what == "token-damage" { first_err } else { 0 };
        let printed: Vec<&String> = evs[from..].iter().filter_map(|e| if let Ev::Print(p) = e { Some(p) } else { None }).filter(|p| !p.contains("READY.")).collect();
        if what == "token-damage" && first_err > 0 && evs[..first_err].iter().any(|e| matches!(e, Ev::Print(p) if !p.contains("READY."))) {
            ctx.count("damage_gave_runtime_error_only");
            return;
        }
        if !printed.is_empty() {
            ctx.violation(
                "executed-despite-errors",
                &format!("diag:executed:{}", cmd.split(' ').next().unwrap_or("")),
                &format!("the program has compile-time errors {:?} but {:?} printed {:?}", errors.iter().map(|e| &e.0).collect::<Vec<_>>(), cmd, printed),
                &text,
            );
            return;
        }
        let mut matched = expect_text.is_none() || two_kinds;
        for (d, l, col) in &errors {
            let name = error_name(d);
            let ln = match l {
                Some(n) => *n,
                None => continue,
            };
            let lt = match listing.iter().find(|t| t.split(' ').next() == Some(&ln.to_string())) {
                Some(t) => t.clone(),
                None => {
                    ctx.violation("names-missing-line", "diag:no-such-line", &format!("{} names line {} which is not in the listing", d, ln), &text);
                    return;
                }
            };
            let got = chars_at(&lt, col);
            let prefix = ln.to_string().chars().count() + 1;
            if got.is_none() || (col.start < prefix && *col != (prefix..prefix) && col.start != col.end) {
                ctx.violation(
                    "range-outside-line",
                    &format!("diag:range:{}", what),
                    &format!("{} reports range {:?}, outside the listed text {:?}", d, col, lt),
                    &text,
                );
                return;
            }
            if let Some(exp) = &expect_text {
                let code_ok = expect_code.map(|c| c == name).unwrap_or(name.contains("WHILE") || name.contains("WEND"));
                if code_ok {
                    if got.as_deref() == Some(exp.as_str()) {
                        matched = true;
                        // LIST must underline the same range
                        let (_, evl) = run(&mut s, &format!("LIST {}", ln));
                        let cols: Vec<std::ops::Range<usize>> = evl
                            .iter()
                            .filter_map(|e| if let Ev::List(_, c) = e { Some(c.clone()) } else { None })
                            .flatten()
                            .collect();
                        ctx.count("list_underlines_checked");
                        if !cols.contains(col) {
                            ctx.violation(
                                "list-underline-differs",
                                "diag:list",
                                &format!("{} has range {:?} but LIST {} underlines {:?}", d, col, ln, cols),
                                &text,
                            );
                            return;
                        }
                    } else {
                        ctx.violation(
                            "range-wrong",
                            &format!("diag:wrong-range:{}", what),
                            &format!("{}: range {:?} of {:?} covers {:?}, expected exactly {:?}", d, col, lt, got, exp),
                            &text,
                        );
                        return;
                    }
                }
            }
        }
        if !matched {
            ctx.violation(
                "expected-diagnostic-missing",
                &format!("diag:missing:{}", what),
                &format!("fault {} ({:?}) not among the diagnostics {:?}", what, expect_text, errors),
                &text,
            );
            return;
        }
        // direct statements that do not enter the program still work
        let directs = [
            "PRINT 7*6",
            "WHILE K9<3:K9=K9+1:WEND:PRINT K9*14",
            "FOR I9=1 TO 3:NEXT:PRINT (I9-1)*14",
            "IF 1 THEN PRINT 42 ELSE PRINT 0",
            "K9=5:WHILE K9:K9=K9-1:WEND:PRINT 42+K9",
            "A9$=\"4\"+\"2\":PRINT VAL(A9$)",
            "DIM Q9(3):Q9(2)=42:PRINT Q9(2):ERASE Q9",
        ];
        let dl = *rng.pick(&directs[..]);
        let (_, ev2) = run(&mut s, dl);
        ctx.count("direct_statements_with_a_faulty_program");
        let ok = ev2.iter().any(|e| matches!(e, Ev::Print(p) if p.contains("42"))) && !ev2.iter().any(|e| matches!(e, Ev::Error(..)));
        if !ok {
            ctx.violation(
                "direct-blocked",
                &format!("diag:direct:{}", dl.split(|c: char| !c.is_ascii_alphabetic()).next().unwrap_or("")),
                &format!("{:?} with the faulty program in memory gave {:?} (expected 42 and no error)", dl, ev2),
                &format!("{}\n{}", text, dl),
            );
            return;
        }
        // typing the number of a line that does not exist changes nothing: the program still has its
        // errors and still must not run
        if what != "token-damage" {
            let absent = (0..70u16).map(|k| 60_001 + k * 7).find(|n| !used.contains(n) && *n != missing).unwrap_or(65_000);
            let (_, _) = run(&mut s, &absent.to_string());
            let (st3, ev3) = run(&mut s, &cmd);
            ctx.count("reruns_after_an_absent_line_number");
            let printed3: Vec<&String> = ev3.iter().filter_map(|e| if let Ev::Print(p) = e { Some(p) } else { None }).filter(|p| !p.contains("READY.")).collect();
            let errs3 = ev3.iter().filter(|e| matches!(e, Ev::Error(..))).count();
            if st3 != Stop::Stopped || !printed3.is_empty() || errs3 == 0 {
                ctx.violation(
                    "executed-despite-errors",
                    "diag:executed-after-absent-number",
                    &format!("after typing the absent line number {} the faulty program answered {:?} with output {:?} and {} diagnostics", absent, cmd, printed3, errs3),
                    &format!("{}\n{}\n{}", text, absent, cmd),
                );
                return;
            }
        }
        if ctx.want_sample() {
            ctx.sample(&format!("{}\n--> {:?}", text, errors));
        }
    }
}
