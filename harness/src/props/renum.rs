//! C14 — RENUM preserves the program and rewrites every reference, or changes nothing.

use crate::ctx::{Ctx, Tier};
use crate::drive::{drain_with_replies, transcript, Ev, Norm, Session, Stop};
use crate::gen::{self, Line, Opts, Prog, Render, Spell, St};
use crate::mon;
use crate::props::modelprog::first_diff;
use crate::rng::Rng;
use crate::Prop;

pub struct C14;

fn render(p: &Prog) -> Vec<String> {
    let mut r = Render::new(p, Spell::default());
    r.then_short = true;
    r.lines()
}

fn typed(lines: &[String]) -> Session {
    let mut s = Session::new();
    s.drain(16);
    for l in lines {
        s.enter(l);
        s.drain(16);
    }
    s
}

fn run(s: &mut Session, c: &str) -> (String, Stop, Vec<Ev>) {
    let mark = s.mark();
    s.enter(c);
    let mut used = 0;
    let stop = drain_with_replies(s, &[], &mut used, 4_000);
    (transcript(s.events_since(mark), Norm::STD), stop, s.events_since(mark).to_vec())
}

fn strip_nums(t: &str) -> String {
    let mut out = String::new();
    let mut rest = t;
    while let Some(i) = rest.find(" IN ") {
        out.push_str(&rest[..i + 4]);
        rest = &rest[i + 4..];
        let d = rest.chars().take_while(|c| c.is_ascii_digit()).count();
        rest = &rest[d..];
    }
    out.push_str(rest);
    out
}

fn squeeze(v: &[String]) -> Vec<String> {
    v.iter().map(|l| l.replace(' ', "")).collect()
}

impl Prop for C14 {
    fn cases(&self, tier: Tier) -> u64 {
        match tier {
            Tier::Quick => 250_000,
            Tier::Thorough => 1_500_000,
        }
    }

    fn rule(&self) -> &'static str {
        "Link-clean generated programs (GOTO, GOSUB, THEN n, ELSE n, ON..GOTO and ON..GOSUB lists, RESTORE n, and in \
         unreachable tail lines RUN n, LIST a-b, LIST -n, DELETE n-, DELETE n plus the bare forms RUN / LIST / RESTORE; \
         non-ASCII string literals in front of operands; numbering that starts at line 0 in a third of the cases) and \
         RENUM with every argument shape (none, n, n,m, n,m,s, n,,s, ,m, ,,s) and values on, between, below and above \
         existing lines, steps 0,1,2,10,1000,30000, targets near 65529. Oracle: the listing afterwards is either \
         unchanged (and then an error was reported or the renumbering is the identity), or exactly the program \
         re-rendered under the reference renumbering (lines below old-start keep numbers, the rest become new, new+step.. \
         in order, every operand mapped, nothing else changed); an invalid request (step 0, overflow past 65529, \
         collision with the kept prefix) must leave it unchanged. Then RUN must behave as before up to line numbers. \
         Distinct = hash of program + command; non-trivial = the reference renumbering is valid and not the identity."
    }

    fn run_case(&mut self, _idx: u64, rng: &mut Rng, ctx: &mut Ctx) {
        let o = Opts { data: rng.coin(), func: rng.chance(1, 3), tron: false, stop: true, max_lines: 30, input: false, frac: rng.coin(), strings: rng.coin(), arrays: rng.coin() };
        let mut p = gen::generate(rng, o);
        // unreachable tail with the command forms that carry line numbers
        let labels: Vec<usize> = p.lines.iter().map(|l| l.label).collect();
        let mut next_label = labels.iter().max().copied().unwrap_or(0) + 1;
        let forms: [(&'static str, usize); 12] = [
            ("RUN {}", 1), ("LIST {}-{}", 2), ("LIST -{}", 1), ("LIST {}-", 1), ("LIST {}", 1), ("DELETE {}-{}", 2),
            ("DELETE {}", 1), ("DELETE -{}", 1), ("RUN", 0), ("LIST", 0), ("RESTORE", 0), ("RESTORE {}", 1),
        ];
        p.lines.push(Line { label: next_label, sts: vec![St::End] });
        next_label += 1;
        for _ in 0..rng.range(1, 4) {
            let (f, n) = *rng.pick(&forms);
            let mut refs: Vec<usize> = (0..n).map(|_| *rng.pick(&labels)).collect();
            refs.sort_by_key(|l| labels.iter().position(|x| x == l));
            let mut sts = vec![];
            if rng.coin() {
                sts.push(St::Print(vec![gen::Item::S("é→".into())], true));
            }
            sts.push(St::Cmd(f, refs));
            if rng.chance(1, 3) {
                // something behind the command on its line: an omitted operand is followed by `:`
                sts.push(St::Print(vec![gen::Item::S("z".into())], false));
            }
            p.lines.push(Line { label: next_label, sts });
            next_label += 1;
        }
        // (line numbers above 32767 are not Integer literals to the lexer: some programs straddle that mark)
        let start = match rng.usize(6) {
            0 | 1 => 0,
            2 => *rng.pick(&[32_700u16, 32_760, 32_768, 40_000]),
            _ => rng.range(1, 200) as u16,
        };
        let step0 = *rng.pick(&[1u16, 2, 5, 10, 10, 100]);
        p.number(start, step0);
        let before = render(&p);
        let nums: Vec<u16> = p.lines.iter().map(|l| p.num(l.label)).collect();

        // the request
        let pick_old = |rng: &mut Rng| -> u32 {
            match rng.usize(4) {
                0 => 0,
                1 => *rng.pick(&nums) as u32,
                2 => *rng.pick(&nums) as u32 + 1,
                _ => rng.below(70_000) as u32,
            }
        };
        let new_v = match rng.usize(7) {
            6 => *rng.pick(&[0u32, 0, 1, 10]),
            0 => 65_000 + rng.below(600) as u32,
            1 => rng.below(70_000) as u32,
            2 => *rng.pick(&nums) as u32,
            _ => rng.below(2000) as u32,
        };
        let old_v = pick_old(rng);
        let step_v = *rng.pick(&[0u32, 1, 1, 2, 10, 10, 1000, 30_000, 70_000]);
        let (cmd, new_start, old_start, step): (String, u32, u32, u32) = match rng.usize(7) {
            0 => ("RENUM".into(), 10, 0, 10),
            1 => (format!("RENUM {}", new_v), new_v, 0, 10),
            2 => (format!("RENUM {},{}", new_v, old_v), new_v, old_v, 10),
            3 => (format!("RENUM {},{},{}", new_v, old_v, step_v), new_v, old_v, step_v),
            4 => (format!("RENUM {},,{}", new_v, step_v), new_v, 0, step_v),
            5 => (format!("RENUM ,{}", old_v), 10, old_v, 10),
            _ => (format!("RENUM ,,{}", step_v), 10, 0, step_v),
        };
        // one case in eight: a request under which the last line lands on the number it already has while
        // earlier lines move
        let (cmd, new_start, old_start, step) = if rng.chance(1, 8) && nums.len() >= 3 {
            let k = nums.len() - 1;
            let i = rng.usize(k);
            let st = *rng.pick(&[1u32, 2, 3, 5, 10]);
            let n = nums[k] as i64 - st as i64 * (k - i) as i64;
            if n >= 0 && (i == 0 || n > nums[i - 1] as i64) {
                (format!("RENUM {},{},{}", n, nums[i], st), n as u32, nums[i] as u32, st)
            } else {
                (cmd, new_start, old_start, step)
            }
        } else {
            (cmd, new_start, old_start, step)
        };
        let text = format!("{}\n{}", before.join("\n"), cmd);
        mon::journal(&text);

        // one case in twelve: RENUM must refuse -- as a statement of the program, or while the program
        // has a compile-time error -- and then change nothing
        if _idx % 12 == 11 {
            let mut lines = before.clone();
            let last = *nums.iter().max().unwrap_or(&0);
            let in_program = rng.coin();
            let what = if in_program {
                lines.insert(0, format!("{} {}", nums[0].saturating_sub(0), before[0].splitn(2, ' ').nth(1).unwrap_or("REM")));
                lines.remove(1);
                lines.push(format!("{} {}", last + 1, cmd));
                "as a program statement"
            } else {
                lines.push(format!("{} GOTO {}", last + 1, last + 7));
                "with a compile-time error in the program"
            };
            let mut b = typed(&lines);
            let listing_before = b.listing_text();
            let c2 = if in_program { format!("RUN {}", last + 1) } else { cmd.clone() };
            let (t, st, evs) = run(&mut b, &c2);
            let errors: Vec<String> = evs.iter().filter_map(|e| if let Ev::Error(d, _, _) = e { Some(d.clone()) } else { None }).collect();
            ctx.eval(&format!("{}\n{}", lines.join("\n"), c2), true);
            ctx.count("refusals_checked");
            if st != Stop::Stopped || b.listing_text() != listing_before || errors.is_empty() {
                ctx.violation(
                    "refusal",
                    &format!("renum:refusal:{}", if in_program { "in-program" } else { "compile-error" }),
                    &format!(
                        "RENUM {} must be refused and change nothing: stop={:?}, listing changed={}, errors {:?}, output {:?}",
                        what,
                        st,
                        b.listing_text() != listing_before,
                        errors,
                        t
                    ),
                    &format!("{}\n{}", lines.join("\n"), c2),
                );
            }
            return;
        }

        // reference renumbering
        let mut q = p.clone();
        let mut valid = step > 0 && new_start <= 65_529 && old_start <= 65_529 && step <= 65_529;
        let mut n = new_start as u64;
        let mut last_kept: Option<u16> = None;
        let mut any_renumbered = false;
        for l in &p.lines {
            let old = p.num(l.label);
            if (old as u32) < old_start {
                last_kept = Some(old);
            } else {
                if let Some(k) = last_kept {
                    if k as u64 >= new_start as u64 {
                        valid = false;
                    }
                }
                if n > 65_529 {
                    valid = false;
                } else {
                    q.nums.insert(l.label, n as u16);
                }
                any_renumbered = true;
                n += step as u64;
            }
        }
        let _ = any_renumbered;
        let identity = q.nums == p.nums;
        let want = render(&q);

        let mut a = typed(&before);
        let (t_before, st_a, _) = run(&mut a, "RUN");
        let mut b = typed(&before);
        if squeeze(&b.listing_text()) != squeeze(&before) {
            ctx.count("discarded_listing_not_canonical");
            return;
        }
        let (_, st_r, evs) = run(&mut b, &cmd);
        if st_r != Stop::Stopped {
            ctx.violation("no-stop", "renum:no-stop", "RENUM did not return to the prompt", &text);
            return;
        }
        let errors: Vec<String> = evs.iter().filter_map(|e| if let Ev::Error(d, _, _) = e { Some(d.clone()) } else { None }).collect();
        let got = squeeze(&b.listing_text());
        ctx.eval(&text, valid && !identity);
        ctx.cover("renum_argument_shapes", &cmd.chars().filter(|c| !c.is_ascii_digit()).collect::<String>());
        ctx.count(if valid { "valid_requests" } else { "invalid_requests" });
        if ctx.want_sample() && valid && !identity {
            ctx.sample(&text);
        }
        let unchanged = got == squeeze(&before);
        if unchanged && !identity {
            if errors.is_empty() {
                ctx.violation("silent-no-op", "renum:silent", &format!("{:?} changed nothing and reported no error", cmd), &text);
            } else {
                ctx.count("failed_and_unchanged");
            }
            return;
        }
        if !valid {
            if !unchanged {
                let i = got.iter().zip(squeeze(&before).iter()).position(|(x, y)| x != y).unwrap_or(0);
                ctx.violation(
                    "invalid-request-changed-program",
                    &format!("renum:invalid:{}", if step == 0 { "step0" } else { "range" }),
                    &format!(
                        "{:?} cannot renumber (step 0, overflow or collision with kept lines) yet the program changed; {} lines before, {} after; first changed line {:?} -> {:?}; errors {:?}",
                        cmd, before.len(), got.len(), before.get(i), b.listing_text().get(i), errors
                    ),
                    &text,
                );
            }
            return;
        }
        if got != squeeze(&want) {
            let sw = squeeze(&want);
            let i = got.iter().zip(sw.iter()).position(|(x, y)| x != y).unwrap_or(got.len().min(sw.len()));
            // classify by the statement kind on the differing line
            let kind = before
                .get(i)
                .map(|l| {
                    for k in ["ON ", "RESTORE", "RUN", "LIST", "DELETE", "THEN", "GOSUB", "GOTO"] {
                        if l.contains(k) {
                            return k.trim();
                        }
                    }
                    "other"
                })
                .unwrap_or("length");
            ctx.violation(
                "wrong-renumbering",
                &format!("renum:wrong:{}", kind),
                &format!(
                    "{:?}: line {:?} became {:?}, the reference renumbering gives {:?} ({} vs {} lines)",
                    cmd, before.get(i), b.listing_text().get(i), want.get(i), got.len(), sw.len()
                ),
                &text,
            );
            return;
        }
        ctx.count("renumbered_as_reference");
        if st_a == Stop::Budget {
            return;
        }
        let (t_after, st_b, _) = run(&mut b, "RUN");
        if st_b == Stop::Budget {
            ctx.violation("no-stop", "renum:run-no-stop", "renumbered program does not stop", &text);
            return;
        }
        ctx.count("runs_compared");
        // with the trace on, the renumbered program must behave exactly (line numbers in the trace, in BREAK
        // and in error messages included) like the reference text typed into a fresh interpreter
        {
            let mut c = typed(&want);
            run(&mut c, "TRON");
            run(&mut b, "TRON");
            let (t_ref, st_c, _) = run(&mut c, "RUN");
            let (t_tr, st_t, _) = run(&mut b, "RUN");
            ctx.count("traced_runs_compared");
            if st_c != Stop::Budget && st_t != Stop::Budget && t_ref != t_tr {
                ctx.violation(
                    "stale-numbers",
                    "renum:traced-run",
                    &format!("{}\nafter RENUM, TRON, RUN: {:?}\nthe renumbered text typed afresh: {:?}", first_diff(&t_tr, &t_ref), t_tr, t_ref),
                    &format!("{}\nTRON\nRUN", text),
                );
                return;
            }
        }
        if strip_nums(&t_before) != strip_nums(&t_after) {
            ctx.violation(
                "behaviour-changed",
                "renum:behaviour",
                &format!("{}\nbefore: {:?}\nafter : {:?}", first_diff(&strip_nums(&t_before), &strip_nums(&t_after)), t_before, t_after),
                &text,
            );
        }
    }
}
