//! C02 — expressions evaluate per documented precedence, promotion and result types.
//! The typed result is read from the VM's value stack (probe hook) just before the PRINT opcode,
//! so parser, codegen, VM and Operation are all on the path and number formatting is not.

use crate::conv::from_val;
use crate::ctx::{Ctx, Tier};
use crate::drive::{error_name, Ev, Session, Stop};
use crate::model::val::{self as mv, BinOp, MErr, UnOp, V, ALL_BINOPS};
use crate::mon;
use crate::rng::Rng;
use crate::Prop;

pub struct C02;

#[derive(Clone, Debug)]
enum X {
    Lit(V),
    /// a variable that was never assigned: it reads as the 0 (or "") of the type its name gives it
    Var(V),
    Bin(Box<X>, BinOp, Box<X>),
    Un(UnOp, Box<X>),
}

fn lit_text(v: &V) -> String {
    match v {
        V::I(n) => format!("{}%", n),
        V::S(x) => {
            let s = format!("{:?}", x);
            format!("{}!", s.trim_end_matches(".0"))
        }
        V::D(x) => {
            let s = format!("{:?}", x);
            format!("{}#", s.trim_end_matches(".0"))
        }
        V::Str(s) => format!("\"{}\"", s),
    }
}

fn rand_lit(rng: &mut Rng) -> V {
    match rng.usize(10) {
        0..=3 => V::I(*rng.pick(&[0i16, 1, 2, 3, 7, 10, 255, 256, 32767, 181, 182])),
        4..=6 => V::S(*rng.pick(&[0.5f32, 1.5, 2.25, 3.0, 0.1, 16777216.0, 32767.5, 32768.0, 1e10, 1e-3, 7.0])),
        7 | 8 => V::D(*rng.pick(&[0.1f64, 1.5, 2.0, 3.0, 32768.0, 65536.5, 1e15, 1e-7, 123456789.25])),
        _ => V::Str(rng.pick(&["", "A", "AB", "a", "é"]).to_string()),
    }
}

fn var_text(v: &V) -> String {
    match v {
        V::I(_) => "Z0%".into(),
        V::S(_) => "Z0!".into(),
        V::D(_) => "Z0#".into(),
        V::Str(_) => "Z0$".into(),
    }
}

fn gen(rng: &mut Rng, depth: usize, strings: bool) -> X {
    if rng.chance(1, 12) {
        return match rng.usize(if strings { 4 } else { 3 }) {
            0 => X::Var(V::I(0)),
            1 => X::Var(V::S(0.0)),
            2 => X::Var(V::D(0.0)),
            _ => X::Var(V::Str(String::new())),
        };
    }
    if depth == 0 || rng.chance(1, 4) {
        loop {
            let l = rand_lit(rng);
            if strings || !matches!(l, V::Str(_)) {
                return X::Lit(l);
            }
        }
    }
    if rng.chance(1, 5) {
        let op = *rng.pick(&[UnOp::Neg, UnOp::Neg, UnOp::Not, UnOp::Pos]);
        return X::Un(op, Box::new(gen(rng, depth - 1, strings)));
    }
    let op = ALL_BINOPS[rng.usize(ALL_BINOPS.len())];
    X::Bin(Box::new(gen(rng, depth - 1, strings)), op, Box::new(gen(rng, depth - 1, strings)))
}

/// Minimal parentheses under the manual's table (left associative).
fn render_min(x: &X, parent: u8, right_side: bool) -> String {
    match x {
        X::Lit(v) => lit_text(v),
        X::Var(v) => var_text(v),
        X::Un(op, a) => {
            let lvl = op.level();
            let inner = render_min(a, lvl, false);
            let s = if *op == UnOp::Not { format!("NOT {}", inner) } else { format!("{}{}", op.text(), inner) };
            // a unary operator as the right operand of a tighter binary operator needs parentheses
            if lvl < parent || (right_side && lvl <= parent) {
                format!("({})", s)
            } else {
                s
            }
        }
        X::Bin(l, op, r) => {
            let lvl = op.level();
            let ls = render_min(l, lvl, false);
            let rs = render_min(r, lvl, true);
            let s = if op.is_word() { format!("{} {} {}", ls, op.text(), rs) } else { format!("{}{}{}", ls, op.text(), rs) };
            if lvl < parent || (right_side && lvl <= parent) {
                format!("({})", s)
            } else {
                s
            }
        }
    }
}

fn render_full(x: &X) -> String {
    match x {
        X::Lit(v) => lit_text(v),
        X::Var(v) => var_text(v),
        X::Un(op, a) => {
            if *op == UnOp::Not {
                format!("(NOT {})", render_full(a))
            } else {
                format!("({}{})", op.text(), render_full(a))
            }
        }
        X::Bin(l, op, r) => {
            if op.is_word() {
                format!("({} {} {})", render_full(l), op.text(), render_full(r))
            } else {
                format!("({}{}{})", render_full(l), op.text(), render_full(r))
            }
        }
    }
}

/// (value, used ^ somewhere)
fn model_eval(x: &X) -> (mv::MR<V>, bool) {
    match x {
        X::Lit(v) | X::Var(v) => (Ok(v.clone()), false),
        X::Un(op, a) => {
            let (v, p) = model_eval(a);
            match v {
                Ok(v) => (mv::unop(*op, &v), p),
                Err(e) => (Err(e), p),
            }
        }
        X::Bin(l, op, r) => {
            let (a, p1) = model_eval(l);
            let (b, p2) = model_eval(r);
            let p = p1 || p2 || *op == BinOp::Pow;
            match (a, b) {
                (Ok(a), Ok(b)) => (mv::binop(*op, &a, &b), p),
                // two sub-expressions failing: which error wins is not documented
                (Err(_), Err(_)) => (Err(MErr::Unspec), p),
                (Err(e), _) | (_, Err(e)) => (Err(e), p),
            }
        }
    }
}

/// Runs `PRINT <text>` and returns the typed value on the stack when PRINT is reached, or the error.
fn eval_impl(text: &str) -> Result<Result<V, String>, String> {
    let mut s = Session::new();
    s.drain(8);
    let mark = s.mark();
    s.enter(&format!("PRINT {}", text));
    for _ in 0..4000 {
        let pr = s.rt.verif_probe();
        if pr.state == "Running" && pr.next_op == "PRINT" {
            return match pr.stack.last().and_then(from_val) {
                Some(v) => Ok(Ok(v)),
                None => Err(format!("stack top at PRINT is {:?}", pr.stack.last())),
            };
        }
        match s.step_q(1) {
            Some(Stop::Stopped) => break,
            Some(_) => return Err("unexpected input request".into()),
            None => {}
        }
    }
    for e in s.events_since(mark) {
        if let Ev::Error(d, _, _) = e {
            return Ok(Err(error_name(d)));
        }
    }
    Err("neither PRINT reached nor an error reported".into())
}


/// An undecorated or decorated numeric literal in one of the documented forms, with the type and value
/// the manual's six rules (chapter 1, in order) give it. None = the rules collide (E exponent with more
/// than 7 digits) or the form is not documented.
fn literal_case(rng: &mut Rng) -> (String, Option<V>) {
    let nd = *rng.pick(&[1usize, 2, 3, 4, 5, 6, 7, 7, 8, 9, 12, 16]);
    let mut digits = String::new();
    for i in 0..nd {
        let d = if i == 0 { rng.range(1, 9) } else { rng.range(0, 9) };
        digits.push(char::from(b'0' + d as u8));
    }
    if rng.chance(1, 10) {
        digits = rng.pick(&["32767", "32768", "9999999", "10000000", "0", "00012", "65535", "16777217"]).to_string();
    }
    let mut text = digits.clone();
    let mut has_dot = false;
    if rng.chance(2, 5) {
        let at = rng.usize(digits.len() + 1);
        text = format!("{}.{}", &digits[..at], &digits[at..]);
        has_dot = true;
    }
    let ndig = digits.len();
    let mut exp: Option<char> = None;
    if rng.chance(2, 5) {
        let letter = *rng.pick(&['E', 'e', 'D', 'd', 'E', 'E']);
        let sign = *rng.pick(&["", "+", "-", "-", "+"]);
        let e = *rng.pick(&[0i32, 1, 2, 5, 9, 10, 12, 20]);
        text.push(letter);
        text.push_str(sign);
        text.push_str(&e.to_string());
        exp = Some(letter.to_ascii_uppercase());
    }
    let suffix = *rng.pick(&["", "", "", "", "!", "#", "%"]);
    if suffix == "%" && (has_dot || exp.is_some() || digits.parse::<i32>().map(|n| n > 32767).unwrap_or(true)) {
        // an Integer decorator on something that is not a small whole number is not documented
        return (format!("{}{}", text, suffix), None);
    }
    text.push_str(suffix);
    // the numeric value: the decimal the text denotes (D is an exponent letter like E)
    let plain: String = text.trim_end_matches(['!', '#', '%']).replace(['D', 'd'], "E");
    let ty = match suffix {
        "!" => Some(mv::Ty::S),
        "#" => Some(mv::Ty::D),
        "%" => Some(mv::Ty::I),
        _ => {
            if exp == Some('D') {
                Some(mv::Ty::D)
            } else if exp == Some('E') {
                if ndig > 7 {
                    None
                } else {
                    Some(mv::Ty::S)
                }
            } else if has_dot {
                Some(if ndig > 7 { mv::Ty::D } else { mv::Ty::S })
            } else if ndig > 7 {
                Some(mv::Ty::D)
            } else if digits.parse::<i32>().map(|n| n <= 32767).unwrap_or(false) {
                Some(mv::Ty::I)
            } else {
                Some(mv::Ty::S)
            }
        }
    };
    let v = match ty {
        None => None,
        Some(mv::Ty::I) => plain.parse::<i16>().ok().map(V::I),
        Some(mv::Ty::S) => plain.parse::<f32>().ok().map(V::S),
        Some(mv::Ty::D) => plain.parse::<f64>().ok().map(V::D),
        Some(mv::Ty::Str) => None,
    };
    // a decorated literal with a D exponent and `!`, or E exponent and `#`: decorator wins (documented),
    // but more than 7 digits with `!` is the same loss of precision as an assignment
    (text, v)
}

const FUNCS: [&str; 14] = ["ABS", "SGN", "INT", "FIX", "CINT", "CSNG", "CDBL", "SQR", "SIN", "COS", "TAN", "ATN", "EXP", "LOG"];

/// Documented value (and, where the manual fixes it, type) of a numeric function.
fn model_fn(name: &str, v: &V) -> (mv::MR<V>, mv::Tol) {
    use mv::Tol;
    let x = match v.as_f64() {
        Some(x) => x,
        None => return (mv::err(mv::Code::TypeMismatch), Tol::Exact),
    };
    match name {
        "ABS" => match v {
            V::I(n) => (n.checked_abs().map(V::I).ok_or(MErr::Code(mv::Code::Overflow)), Tol::Exact),
            V::S(a) => (Ok(V::S(a.abs())), Tol::Exact),
            _ => (Ok(V::D(x.abs())), Tol::Exact),
        },
        "SGN" => (Ok(V::I(if x > 0.0 { 1 } else if x < 0.0 { -1 } else { 0 })), Tol::ValueOnly),
        "INT" => (Ok(V::D(x.floor())), Tol::ValueOnly),
        "FIX" => (Ok(V::D(x.trunc())), Tol::ValueOnly),
        "CINT" => (mv::to_int(v).map(V::I), Tol::Exact),
        "CSNG" => match mv::assign(mv::Ty::S, v) {
            Ok(r) => (Ok(r), Tol::Exact),
            Err(e) => (Err(e), Tol::Exact),
        },
        "CDBL" => (Ok(V::D(x)), Tol::Exact),
        "SIN" | "COS" | "TAN" | "ATN" | "EXP" | "LOG" => {
            // computed in the operand's precision (Integer operands as Single); compared loosely
            if x.abs() > 80.0 || (name == "LOG" && x <= 0.0) {
                return (Err(MErr::Unspec), Tol::Loose);
            }
            let f = |y: f64| match name {
                "SIN" => y.sin(),
                "COS" => y.cos(),
                "TAN" => y.tan(),
                "ATN" => y.atan(),
                "EXP" => y.exp(),
                _ => y.ln(),
            };
            match v {
                V::D(_) => (Ok(V::D(f(x))), Tol::Loose),
                _ => {
                    let r = f((x as f32) as f64) as f32;
                    // near a zero or a pole the relative error of the Single routines is unbounded
                    if !r.is_finite() || (r != 0.0 && r.abs() < 1e-3) || r.abs() > 1e6 {
                        (Err(MErr::Unspec), Tol::Loose)
                    } else {
                        (Ok(V::S(r)), Tol::Loose)
                    }
                }
            }
        }
        _ => {
            // SQR: exact for perfect squares, otherwise correctly rounded in the operand's precision
            if x < 0.0 {
                return (Err(MErr::Unspec), Tol::Loose);
            }
            match v {
                V::D(_) => (Ok(V::D(x.sqrt())), Tol::Loose),
                _ => (Ok(V::S((x as f32).sqrt())), Tol::Loose),
            }
        }
    }
}

fn has_nan_or_inf(v: &V) -> bool {
    match v {
        V::S(x) => !x.is_finite(),
        V::D(x) => !x.is_finite(),
        _ => false,
    }
}

impl Prop for C02 {
    fn cases(&self, tier: Tier) -> u64 {
        match tier {
            Tier::Quick => 900_000,
            Tier::Thorough => 12_000_000,
        }
    }

    fn rule(&self) -> &'static str {
        "Case kinds: (a) every binary operator (18) x operand type pair (Integer, Single, Double, String: 16) with \
         boundary literals, and every unary operator x type; (b) random trees of depth <= 3 over all operators, \
         rendered with the minimal parentheses the manual's 13-level left-associative table allows and fully \
         parenthesised. Each text is run as `PRINT <expr>` on a real Runtime, single-stepped, and the typed value on \
         the VM stack when the PRINT opcode is reached (probe hook) is compared with the reference evaluator: exact \
         bits and type for + - * / \\ MOD, relational (0 / -1 Integer) and logical operators, relative 1e-5 / 1e-11 \
         where ^ is involved; errors by name. The two renderings must give the same typed value or error as each \
         other. Assignment: `V<suffix>=expr` then the stored value (probe) must have the variable's type and equal \
         the model's conversion, or raise OVERFLOW / TYPE MISMATCH. Discarded: trees in which two sub-expressions \
         fail, results that are inf/NaN. Distinct = hash of the text; non-trivial = at least one operator and no discard."
    }

    fn run_case(&mut self, idx: u64, rng: &mut Rng, ctx: &mut Ctx) {
        if idx % 8 == 7 {
            return self.literal_or_function(idx, rng, ctx);
        }
        let x = if idx % 3 == 0 {
            // matrix entry
            let k = (idx / 3) as usize;
            let op = ALL_BINOPS[k % 18];
            let want_ty = |t: usize, rng: &mut Rng| -> V {
                loop {
                    let l = rand_lit(rng);
                    let ok = matches!((&l, t), (V::I(_), 0) | (V::S(_), 1) | (V::D(_), 2) | (V::Str(_), 3));
                    if ok {
                        return l;
                    }
                }
            };
            let lt = (k / 18) % 4;
            let rt = (k / 72) % 4;
            let l = want_ty(lt, rng);
            let mut r = want_ty(rt, rng);
            // relational operators: every second visit compares numerically equal values of the two types
            if op.level() == 7 && lt < 3 && rt < 3 && rng.coin() {
                let whole = *rng.pick(&[0i16, 1, 2, 5, 7, 100, 255, 32767]);
                let mk = |t: usize| match t {
                    0 => V::I(whole),
                    1 => V::S(whole as f32),
                    _ => V::D(whole as f64),
                };
                let l2 = mk(lt);
                r = mk(rt);
                ctx.count("relational_equal_value_pairs");
                let x = X::Bin(Box::new(X::Lit(l2)), op, Box::new(X::Lit(r)));
                return self.judge_tree(x, rng, ctx);
            }
            ctx.cover("operator_type_matrix", &format!("{} {}x{}", op.text(), ["I", "S", "D", "$"][lt], ["I", "S", "D", "$"][rt]));
            if (k / 288) % 4 == 3 {
                X::Un(*rng.pick(&[UnOp::Neg, UnOp::Not, UnOp::Pos]), Box::new(X::Lit(l)))
            } else {
                X::Bin(Box::new(X::Lit(l)), op, Box::new(X::Lit(r)))
            }
        } else {
            let strings = rng.chance(1, 5);
            gen(rng, 3, strings)
        };
        self.judge_tree(x, rng, ctx)
    }
}

impl C02 {
    /// Literal typing rules and numeric functions: the typed value on the stack at PRINT.
    /// RND as documented: a Single in [0,1); RND(0) repeats the previous number; a negative argument
    /// seeds the generator, so the same seed gives the same sequence.
    fn rnd_case(&self, rng: &mut Rng, ctx: &mut Ctx) {
        use crate::drive::{transcript, Norm};
        let k = rng.range(1, 30000);
        let arg = *rng.pick(&["1", "", "2.5", "7%", "1#"]);
        let call = format!("RND({})", arg);
        let script = [
            format!("X=RND(-{}):A={}:B={}:C=RND(0):PRINT (A>=0)+(A<1)+(B>=0)+(B<1);C=B;A<>B", k, call, call),
            format!("X=RND(-{}):D={}:E={}:PRINT (D=A)+(E=B)", k, call, call),
        ];
        let text = script.join("\n");
        mon::journal(&text);
        let mut s = Session::new();
        s.drain(8);
        let mark = s.mark();
        for l in &script {
            if s.command(l, 64) != Stop::Stopped {
                ctx.violation("no-stop", "expr:rnd:no-stop", "no return to the prompt", &text);
                return;
            }
        }
        let got = transcript(s.events_since(mark), Norm::STD);
        ctx.eval(&text, true);
        ctx.count("rnd_sessions");
        let pr = s.rt.verif_probe();
        let single = pr.vars.iter().filter(|(n, _)| ["A", "B", "C", "D", "E"].contains(&n.as_str())).all(|(_, v)| matches!(v, basic::mach::Val::Single(_)));
        // four range tests true (-4), RND(0) repeats (-1), two draws differ (-1); same seed, same sequence (-2)
        let want = "-4 -1 -1 \nREADY.\n<STOPPED>-2 \nREADY.\n<STOPPED>";
        if got != want || !single {
            ctx.violation(
                "rnd",
                "expr:rnd",
                &format!("{}\n printed {:?}, documented behaviour gives {:?}; values are Singles: {}", text, got, want, single),
                &text,
            );
        }
    }

    fn literal_or_function(&self, idx: u64, rng: &mut Rng, ctx: &mut Ctx) {
        if (idx / 8) % 16 == 15 {
            return self.rnd_case(rng, ctx);
        }
        if (idx / 8) % 2 == 0 {
            let (text, want) = literal_case(rng);
            mon::journal(&format!("PRINT {}", text));
            let got = match eval_impl(&text) {
                Ok(g) => g,
                Err(e) => {
                    ctx.violation("harness", "expr:harness", &format!("could not observe the value of {:?}: {}", text, e), &text);
                    return;
                }
            };
            ctx.eval(&format!("literal {}", text), want.is_some());
            ctx.count("literals_typed");
            let want = match want {
                Some(w) => w,
                None => {
                    ctx.count("discarded_unspecified_literal");
                    return;
                }
            };
            if has_nan_or_inf(&want) {
                ctx.count("discarded_inf_nan");
                return;
            }
            ctx.cover("literal_types_seen", &format!("{:?}", want.ty()));
            match got {
                Ok(g) => {
                    if !mv::same(&want, &g, mv::Tol::Exact) {
                        ctx.violation(
                            "literal-type",
                            &format!("expr:literal:{:?}-as-{:?}", want.ty(), g.ty()),
                            &format!("the literal {} is {} by the manual's typing rules, the interpreter makes it {}", text, want.show(), g.show()),
                            &format!("PRINT {}", text),
                        );
                    }
                }
                Err(e) => ctx.violation(
                    "literal-error",
                    "expr:literal-error",
                    &format!("the literal {} ({}) raises {}", text, want.show(), e),
                    &format!("PRINT {}", text),
                ),
            }
        } else {
            let name = FUNCS[rng.usize(FUNCS.len())];
            let arg = loop {
                let l = match rng.usize(6) {
                    0 => V::I(*rng.pick(&[0i16, 1, -1, 9, -9, 16, 32767, -32767, 144])),
                    1 => V::S(*rng.pick(&[0.0f32, 0.5, -0.5, 2.5, -2.5, 9.9, -9.9, 16.0, 32767.5, -32768.5, 1e10, 144.0, 0.25])),
                    2 => V::D(*rng.pick(&[0.0f64, 0.5, -0.5, 2.5, -2.5, 9.9, -9.9, 25.0, 32767.9, -32768.0, -32768.1, 1e15, 1e-9, 0.1])),
                    3 => V::I(rng.range(-32767, 32767) as i16),
                    4 => V::S(((rng.f64() - 0.5) * 70000.0) as f32),
                    _ => V::D((rng.f64() - 0.5) * 70000.0),
                };
                break l;
            };
            // negative literals are written as 0-x so that unary minus is not part of the case
            let arg_text = match &arg {
                V::I(n) if *n < 0 => format!("(0%-{}%)", -(*n as i32)),
                V::S(x) if *x < 0.0 => format!("(0!-{})", lit_text(&V::S(-x))),
                V::D(x) if *x < 0.0 => format!("(0#-{})", lit_text(&V::D(-x))),
                other => lit_text(other),
            };
            let text = format!("{}({})", name, arg_text);
            mon::journal(&format!("PRINT {}", text));
            let (want, tol) = model_fn(name, &arg);
            let got = match eval_impl(&text) {
                Ok(g) => g,
                Err(e) => {
                    ctx.violation("harness", "expr:harness", &format!("could not observe the value of {:?}: {}", text, e), &text);
                    return;
                }
            };
            ctx.eval(&text, true);
            ctx.count("function_calls_checked");
            ctx.cover("functions_called", name);
            match (&want, &got) {
                (Err(MErr::Unspec), _) => ctx.count("discarded_unspecified"),
                (Ok(w), Ok(g)) => {
                    if !mv::same(w, g, tol) {
                        ctx.violation(
                            "wrong-function-value",
                            &format!("expr:function:{}", name),
                            &format!("{} leaves {} on the stack; documented result {}{}", text, g.show(), w.show(), if tol == mv::Tol::ValueOnly { " (value only)" } else { "" }),
                            &format!("PRINT {}", text),
                        );
                    }
                }
                (Ok(w), Err(e)) => ctx.violation("spurious-error", &format!("expr:function-error:{}", name), &format!("{} raises {}; documented result {}", text, e, w.show()), &format!("PRINT {}", text)),
                (Err(MErr::Code(c)), Err(e)) => {
                    if c.name() != e {
                        ctx.violation("wrong-error", &format!("expr:function-wrong-error:{}", name), &format!("{} raises {}; expected {}", text, e, c.name()), &format!("PRINT {}", text));
                    }
                }
                (Err(_), Err(_)) => {}
                (Err(_), Ok(g)) => ctx.violation("missing-error", &format!("expr:function-missing-error:{}", name), &format!("{} yields {}; expected an error", text, g.show()), &format!("PRINT {}", text)),
            }
        }
    }

    fn judge_tree(&self, x: X, rng: &mut Rng, ctx: &mut Ctx) {
        let min = render_min(&x, 0, false);
        let full = render_full(&x);
        if min.len() > 900 {
            return;
        }
        mon::journal(&format!("PRINT {}\nPRINT {}", min, full));
        let (model, has_pow) = model_eval(&x);
        let a = eval_impl(&min);
        let b = eval_impl(&full);
        let (a, b) = match (a, b) {
            (Ok(a), Ok(b)) => (a, b),
            (Err(e), _) | (_, Err(e)) => {
                ctx.violation("harness", "expr:harness", &format!("could not observe the value of {:?}: {}", min, e), &min);
                return;
            }
        };
        let nontrivial = !matches!(x, X::Lit(_)) && !matches!(model, Err(MErr::Unspec));
        ctx.eval(&min, nontrivial);
        if ctx.want_sample() && min != full {
            ctx.sample(&format!("PRINT {}   ==   PRINT {}", min, full));
        }
        if min != full {
            ctx.count("precedence_pairs_compared");
        }
        // (1) precedence: minimal and full parenthesisation agree
        let same_ab = match (&a, &b) {
            (Ok(x), Ok(y)) => mv::same(x, y, mv::Tol::Exact),
            (Err(x), Err(y)) => x == y,
            _ => false,
        };
        if !same_ab {
            // which operator pair is involved
            ctx.violation(
                "precedence",
                "expr:precedence",
                &format!("PRINT {} gives {:?} but the fully parenthesised PRINT {} gives {:?}", min, a, full, b),
                &format!("PRINT {}\nPRINT {}", min, full),
            );
            return;
        }
        // (2) value and type against the reference evaluator. A `^` below the root is computed in
        // Single/Double by powf, whose last-bit differences are amplified by later operations
        // (comparisons, MOD, promotion to Double): such trees are judged for precedence only.
        let pow_below_root = match &x {
            X::Bin(l, _, r) => model_eval(l).1 || model_eval(r).1,
            X::Un(_, a) => model_eval(a).1,
            X::Lit(_) | X::Var(_) => false,
        };
        if pow_below_root {
            ctx.count("value_not_judged_pow_below_root");
            return;
        }
        match (&model, &b) {
            (Err(MErr::Unspec), _) => ctx.count("discarded_unspecified"),
            (Ok(m), _) if has_nan_or_inf(m) => ctx.count("discarded_inf_nan"),
            // `^` results in the subnormal range: powf/powi may flush them; not a documented value
            (Ok(m), _) if has_pow && m.as_f64().map(|a| a != 0.0 && a.abs() < 1.2e-38).unwrap_or(false) => {
                ctx.count("discarded_pow_subnormal")
            }
            (Ok(m), Ok(g)) => {
                let tol = if has_pow { mv::Tol::Loose } else { mv::Tol::Exact };
                // x^y by repeated multiplication or exp/log: the relative error grows with |y|
                let pow_ok = has_pow && m.ty() == g.ty() && match (m.as_f64(), g.as_f64()) {
                    (Some(a), Some(b)) => {
                        let base = if matches!(m, V::D(_)) { 1e-11 } else { 1e-5 };
                        a == b || (a - b).abs() <= base * (1.0 + pow_exponent(&x).abs() / 8.0) * a.abs().max(b.abs())
                    }
                    _ => false,
                };
                if !pow_ok && !mv::same(m, g, tol) {
                    ctx.violation(
                        "wrong-value",
                        &format!("expr:value:{}", top_op(&x)),
                        &format!("PRINT {} leaves {} on the stack; the reference evaluator gives {}", full, g.show(), m.show()),
                        &format!("PRINT {}", full),
                    );
                }
            }
            (Ok(m), Err(e)) => ctx.violation(
                "spurious-error",
                &format!("expr:spurious:{}", top_op(&x)),
                &format!("PRINT {} raises {}; the reference evaluator gives {}", full, e, m.show()),
                &format!("PRINT {}", full),
            ),
            (Err(MErr::Code(c)), Err(e)) => {
                if c.name() != e {
                    ctx.violation(
                        "wrong-error",
                        &format!("expr:wrong-error:{}", top_op(&x)),
                        &format!("PRINT {} raises {}; expected {}", full, e, c.name()),
                        &format!("PRINT {}", full),
                    );
                }
            }
            (Err(MErr::Code(c)), Ok(g)) => ctx.violation(
                "missing-error",
                &format!("expr:missing-error:{}", top_op(&x)),
                &format!("PRINT {} yields {}; expected {}", full, g.show(), c.name()),
                &format!("PRINT {}", full),
            ),
            (Err(MErr::Any), Err(_)) => {}
            (Err(MErr::Any), Ok(g)) => ctx.violation(
                "missing-error",
                &format!("expr:missing-error:{}", top_op(&x)),
                &format!("PRINT {} yields {}; expected an error", full, g.show()),
                &format!("PRINT {}", full),
            ),
        }
        // (3) assignment converts to the variable's type
        if let Ok(m) = &model {
            if has_nan_or_inf(m) {
                return;
            }
            let (suffix, ty) = *rng.pick(&[("%", mv::Ty::I), ("!", mv::Ty::S), ("#", mv::Ty::D), ("$", mv::Ty::Str)]);
            if has_pow && (ty == mv::Ty::I || m.as_f64().map(|a| a != 0.0 && a.abs() < 1.2e-38).unwrap_or(false)) {
                // flooring a `^` result to an Integer amplifies its last-bit difference (99.99999 vs 100)
                ctx.count("store_not_judged_pow_to_integer_or_subnormal");
                return;
            }
            let want = mv::assign(ty, m);
            let stmt = format!("V{}={}", suffix, full);
            let mut s = Session::new();
            s.drain(8);
            let mark = s.mark();
            let st = s.command(&stmt, 64);
            if st != Stop::Stopped {
                return;
            }
            let err = s.events_since(mark).iter().find_map(|e| if let Ev::Error(d, _, _) = e { Some(error_name(d)) } else { None });
            let pr = s.rt.verif_probe();
            let stored = pr.vars.iter().find(|(k, _)| k == &format!("V{}", suffix)).and_then(|(_, v)| from_val(v));
            ctx.count("assignments_checked");
            match (&want, err, stored) {
                (Err(MErr::Unspec), _, _) => {}
                (Ok(w), None, got) => {
                    let got = got.unwrap_or_else(|| V::zero(ty));
                    // a Single computed by `^` and widened to Double carries Single precision
                    let close = match (w.as_f64(), got.as_f64()) {
                        (Some(a), Some(b)) if has_pow => a == b || (a - b).abs() <= 1e-5 * (1.0 + pow_exponent(&x).abs() / 8.0) * a.abs().max(b.abs()),
                        _ => mv::same(w, &got, mv::Tol::Exact),
                    };
                    if got.ty() != ty || !close {
                        ctx.violation(
                            "wrong-store",
                            &format!("expr:store:{}", suffix),
                            &format!("{} stored {}; conversion of {} to the variable's type gives {}", stmt, got.show(), m.show(), w.show()),
                            &stmt,
                        );
                    }
                }
                (Ok(w), Some(e), _) => ctx.violation(
                    "spurious-error",
                    &format!("expr:store-error:{}", suffix),
                    &format!("{} raised {}; expected to store {}", stmt, e, w.show()),
                    &stmt,
                ),
                (Err(MErr::Code(c)), Some(e), _) => {
                    if c.name() != e {
                        ctx.violation("wrong-error", &format!("expr:store-wrong-error:{}", suffix), &format!("{} raised {}; expected {}", stmt, e, c.name()), &stmt);
                    }
                }
                (Err(_), None, got) => ctx.violation(
                    "missing-error",
                    &format!("expr:store-missing-error:{}", suffix),
                    &format!("{} stored {:?}; expected an error ({} does not fit the variable)", stmt, got.map(|g| g.show()), m.show()),
                    &stmt,
                ),
                (Err(_), Some(_), _) => {}
            }
        }
    }
}

/// The (model) value of the exponent when the root of the tree is `^`, else 0.
fn pow_exponent(x: &X) -> f64 {
    if let X::Bin(_, BinOp::Pow, r) = x {
        if let (Ok(v), _) = model_eval(r) {
            return v.as_f64().unwrap_or(0.0);
        }
    }
    0.0
}

fn top_op(x: &X) -> String {
    match x {
        X::Lit(_) => "literal".into(),
        X::Var(_) => "variable".into(),
        X::Un(op, _) => format!("unary{}", op.text()),
        X::Bin(_, op, _) => op.text().to_string(),
    }
}
