//! C02 — expressions evaluate per documented precedence, promotion and result types.
//! The typed result is read from the VM's value stack (probe hook) just before the PRINT opcode,
//! so parser, codegen, VM and Operation are all on the path and number formatting is not.

use crate::conv::from_val;
use crate::ctx::{Ctx, Tier};
use crate::drive::{error_name, Ev, Session, Stop};
use crate::model::val::{self as mv, BinOp, MErr, UnOp, V, ALL_BINOPS};
use crate::mon;
use crate::rng::Rng;
use crate::Prop;

pub struct C02;

#[derive(Clone, Debug)]
enum X {
    Lit(V),
    Bin(Box<X>, BinOp, Box<X>),
    Un(UnOp, Box<X>),
}

fn lit_text(v: &V) -> String {
    match v {
        V::I(n) => format!("{}%", n),
        V::S(x) => {
            let s = format!("{:?}", x);
            format!("{}!", s.trim_end_matches(".0"))
        }
        V::D(x) => {
            let s = format!("{:?}", x);
            format!("{}#", s.trim_end_matches(".0"))
        }
        V::Str(s) => format!("\"{}\"", s),
    }
}

fn rand_lit(rng: &mut Rng) -> V {
    match rng.usize(10) {
        0..=3 => V::I(*rng.pick(&[0i16, 1, 2, 3, 7, 10, 255, 256, 32767, 181, 182])),
        4..=6 => V::S(*rng.pick(&[0.5f32, 1.5, 2.25, 3.0, 0.1, 16777216.0, 32767.5, 32768.0, 1e10, 1e-3, 7.0])),
        7 | 8 => V::D(*rng.pick(&[0.1f64, 1.5, 2.0, 3.0, 32768.0, 65536.5, 1e15, 1e-7, 123456789.25])),
        _ => V::Str(rng.pick(&["", "A", "AB", "a", "é"]).to_string()),
    }
}

fn gen(rng: &mut Rng, depth: usize, strings: bool) -> X {
    if depth == 0 || rng.chance(1, 4) {
        loop {
            let l = rand_lit(rng);
            if strings || !matches!(l, V::Str(_)) {
                return X::Lit(l);
            }
        }
    }
    if rng.chance(1, 5) {
        let op = *rng.pick(&[UnOp::Neg, UnOp::Neg, UnOp::Not, UnOp::Pos]);
        return X::Un(op, Box::new(gen(rng, depth - 1, strings)));
    }
    let op = ALL_BINOPS[rng.usize(ALL_BINOPS.len())];
    X::Bin(Box::new(gen(rng, depth - 1, strings)), op, Box::new(gen(rng, depth - 1, strings)))
}

/// Minimal parentheses under the manual's table (left associative).
fn render_min(x: &X, parent: u8, right_side: bool) -> String {
    match x {
        X::Lit(v) => lit_text(v),
        X::Un(op, a) => {
            let lvl = op.level();
            let inner = render_min(a, lvl, false);
            let s = if *op == UnOp::Not { format!("NOT {}", inner) } else { format!("{}{}", op.text(), inner) };
            // a unary operator as the right operand of a tighter binary operator needs parentheses
            if lvl < parent || (right_side && lvl <= parent) {
                format!("({})", s)
            } else {
                s
            }
        }
        X::Bin(l, op, r) => {
            let lvl = op.level();
            let ls = render_min(l, lvl, false);
            let rs = render_min(r, lvl, true);
            let s = if op.is_word() { format!("{} {} {}", ls, op.text(), rs) } else { format!("{}{}{}", ls, op.text(), rs) };
            if lvl < parent || (right_side && lvl <= parent) {
                format!("({})", s)
            } else {
                s
            }
        }
    }
}

fn render_full(x: &X) -> String {
    match x {
        X::Lit(v) => lit_text(v),
        X::Un(op, a) => {
            if *op == UnOp::Not {
                format!("(NOT {})", render_full(a))
            } else {
                format!("({}{})", op.text(), render_full(a))
            }
        }
        X::Bin(l, op, r) => {
            if op.is_word() {
                format!("({} {} {})", render_full(l), op.text(), render_full(r))
            } else {
                format!("({}{}{})", render_full(l), op.text(), render_full(r))
            }
        }
    }
}

/// (value, used ^ somewhere)
fn model_eval(x: &X) -> (mv::MR<V>, bool) {
    match x {
        X::Lit(v) => (Ok(v.clone()), false),
        X::Un(op, a) => {
            let (v, p) = model_eval(a);
            match v {
                Ok(v) => (mv::unop(*op, &v), p),
                Err(e) => (Err(e), p),
            }
        }
        X::Bin(l, op, r) => {
            let (a, p1) = model_eval(l);
            let (b, p2) = model_eval(r);
            let p = p1 || p2 || *op == BinOp::Pow;
            match (a, b) {
                (Ok(a), Ok(b)) => (mv::binop(*op, &a, &b), p),
                // two sub-expressions failing: which error wins is not documented
                (Err(_), Err(_)) => (Err(MErr::Unspec), p),
                (Err(e), _) | (_, Err(e)) => (Err(e), p),
            }
        }
    }
}

/// Runs `PRINT <text>` and returns the typed value on the stack when PRINT is reached, or the error.
fn eval_impl(text: &str) -> Result<Result<V, String>, String> {
    let mut s = Session::new();
    s.drain(8);
    let mark = s.mark();
    s.enter(&format!("PRINT {}", text));
    for _ in 0..4000 {
        let pr = s.rt.verif_probe();
        if pr.state == "Running" && pr.next_op == "PRINT" {
            return match pr.stack.last().and_then(from_val) {
                Some(v) => Ok(Ok(v)),
                None => Err(format!("stack top at PRINT is {:?}", pr.stack.last())),
            };
        }
        match s.step_q(1) {
            Some(Stop::Stopped) => break,
            Some(_) => return Err("unexpected input request".into()),
            None => {}
        }
    }
    for e in s.events_since(mark) {
        if let Ev::Error(d, _, _) = e {
            return Ok(Err(error_name(d)));
        }
    }
    Err("neither PRINT reached nor an error reported".into())
}

fn has_nan_or_inf(v: &V) -> bool {
    match v {
        V::S(x) => !x.is_finite(),
        V::D(x) => !x.is_finite(),
        _ => false,
    }
}

impl Prop for C02 {
    fn cases(&self, tier: Tier) -> u64 {
        match tier {
            Tier::Quick => 36_000,
            Tier::Thorough => 3_000_000,
        }
    }

    fn rule(&self) -> &'static str {
        "Case kinds: (a) every binary operator (18) x operand type pair (Integer, Single, Double, String: 16) with \
         boundary literals, and every unary operator x type; (b) random trees of depth <= 3 over all operators, \
         rendered with the minimal parentheses the manual's 13-level left-associative table allows and fully \
         parenthesised. Each text is run as `PRINT <expr>` on a real Runtime, single-stepped, and the typed value on \
         the VM stack when the PRINT opcode is reached (probe hook) is compared with the reference evaluator: exact \
         bits and type for + - * / \\ MOD, relational (0 / -1 Integer) and logical operators, relative 1e-5 / 1e-11 \
         where ^ is involved; errors by name. The two renderings must give the same typed value or error as each \
         other. Assignment: `V<suffix>=expr` then the stored value (probe) must have the variable's type and equal \
         the model's conversion, or raise OVERFLOW / TYPE MISMATCH. Discarded: trees in which two sub-expressions \
         fail, results that are inf/NaN. Distinct = hash of the text; non-trivial = at least one operator and no discard."
    }

    fn run_case(&mut self, idx: u64, rng: &mut Rng, ctx: &mut Ctx) {
        let x = if idx % 3 == 0 {
            // matrix entry
            let k = (idx / 3) as usize;
            let op = ALL_BINOPS[k % 18];
            let want_ty = |t: usize, rng: &mut Rng| -> V {
                loop {
                    let l = rand_lit(rng);
                    let ok = matches!((&l, t), (V::I(_), 0) | (V::S(_), 1) | (V::D(_), 2) | (V::Str(_), 3));
                    if ok {
                        return l;
                    }
                }
            };
            let lt = (k / 18) % 4;
            let rt = (k / 72) % 4;
            let l = want_ty(lt, rng);
            let r = want_ty(rt, rng);
            ctx.cover("operator_type_matrix", &format!("{} {}x{}", op.text(), ["I", "S", "D", "$"][lt], ["I", "S", "D", "$"][rt]));
            if (k / 288) % 4 == 3 {
                X::Un(*rng.pick(&[UnOp::Neg, UnOp::Not, UnOp::Pos]), Box::new(X::Lit(l)))
            } else {
                X::Bin(Box::new(X::Lit(l)), op, Box::new(X::Lit(r)))
            }
        } else {
            let strings = rng.chance(1, 5);
            gen(rng, 3, strings)
        };
        let min = render_min(&x, 0, false);
        let full = render_full(&x);
        if min.len() > 900 {
            return;
        }
        mon::journal(&format!("PRINT {}\nPRINT {}", min, full));
        let (model, has_pow) = model_eval(&x);
        let a = eval_impl(&min);
        let b = eval_impl(&full);
        let (a, b) = match (a, b) {
            (Ok(a), Ok(b)) => (a, b),
            (Err(e), _) | (_, Err(e)) => {
                ctx.violation("harness", "expr:harness", &format!("could not observe the value of {:?}: {}", min, e), &min);
                return;
            }
        };
        let nontrivial = !matches!(x, X::Lit(_)) && !matches!(model, Err(MErr::Unspec));
        ctx.eval(&min, nontrivial);
        if ctx.want_sample() && min != full {
            ctx.sample(&format!("PRINT {}   ==   PRINT {}", min, full));
        }
        if min != full {
            ctx.count("precedence_pairs_compared");
        }
        // (1) precedence: minimal and full parenthesisation agree
        let same_ab = match (&a, &b) {
            (Ok(x), Ok(y)) => mv::same(x, y, mv::Tol::Exact),
            (Err(x), Err(y)) => x == y,
            _ => false,
        };
        if !same_ab {
            // which operator pair is involved
            ctx.violation(
                "precedence",
                "expr:precedence",
                &format!("PRINT {} gives {:?} but the fully parenthesised PRINT {} gives {:?}", min, a, full, b),
                &format!("PRINT {}\nPRINT {}", min, full),
            );
            return;
        }
        // (2) value and type against the reference evaluator. A `^` below the root is computed in
        // Single/Double by powf, whose last-bit differences are amplified by later operations
        // (comparisons, MOD, promotion to Double): such trees are judged for precedence only.
        let pow_below_root = match &x {
            X::Bin(l, _, r) => model_eval(l).1 || model_eval(r).1,
            X::Un(_, a) => model_eval(a).1,
            X::Lit(_) => false,
        };
        if pow_below_root {
            ctx.count("value_not_judged_pow_below_root");
            return;
        }
        match (&model, &b) {
            (Err(MErr::Unspec), _) => ctx.count("discarded_unspecified"),
            (Ok(m), _) if has_nan_or_inf(m) => ctx.count("discarded_inf_nan"),
            // `^` results in the subnormal range: powf/powi may flush them; not a documented value
            (Ok(m), _) if has_pow && m.as_f64().map(|a| a != 0.0 && a.abs() < 1.2e-38).unwrap_or(false) => {
                ctx.count("discarded_pow_subnormal")
            }
            (Ok(m), Ok(g)) => {
                let tol = if has_pow { mv::Tol::Loose } else { mv::Tol::Exact };
                if !mv::same(m, g, tol) {
                    ctx.violation(
                        "wrong-value",
                        &format!("expr:value:{}", top_op(&x)),
                        &format!("PRINT {} leaves {} on the stack; the reference evaluator gives {}", full, g.show(), m.show()),
                        &format!("PRINT {}", full),
                    );
                }
            }
            (Ok(m), Err(e)) => ctx.violation(
                "spurious-error",
                &format!("expr:spurious:{}", top_op(&x)),
                &format!("PRINT {} raises {}; the reference evaluator gives {}", full, e, m.show()),
                &format!("PRINT {}", full),
            ),
            (Err(MErr::Code(c)), Err(e)) => {
                if c.name() != e {
                    ctx.violation(
                        "wrong-error",
                        &format!("expr:wrong-error:{}", top_op(&x)),
                        &format!("PRINT {} raises {}; expected {}", full, e, c.name()),
                        &format!("PRINT {}", full),
                    );
                }
            }
            (Err(MErr::Code(c)), Ok(g)) => ctx.violation(
                "missing-error",
                &format!("expr:missing-error:{}", top_op(&x)),
                &format!("PRINT {} yields {}; expected {}", full, g.show(), c.name()),
                &format!("PRINT {}", full),
            ),
            (Err(MErr::Any), Err(_)) => {}
            (Err(MErr::Any), Ok(g)) => ctx.violation(
                "missing-error",
                &format!("expr:missing-error:{}", top_op(&x)),
                &format!("PRINT {} yields {}; expected an error", full, g.show()),
                &format!("PRINT {}", full),
            ),
        }
        // (3) assignment converts to the variable's type
        if let Ok(m) = &model {
            if has_nan_or_inf(m) {
                return;
            }
            let (suffix, ty) = *rng.pick(&[("%", mv::Ty::I), ("!", mv::Ty::S), ("#", mv::Ty::D), ("$", mv::Ty::Str)]);
            if has_pow && (ty == mv::Ty::I || m.as_f64().map(|a| a != 0.0 && a.abs() < 1.2e-38).unwrap_or(false)) {
                // flooring a `^` result to an Integer amplifies its last-bit difference (99.99999 vs 100)
                ctx.count("store_not_judged_pow_to_integer_or_subnormal");
                return;
            }
            let want = mv::assign(ty, m);
            let stmt = format!("V{}={}", suffix, full);
            let mut s = Session::new();
            s.drain(8);
            let mark = s.mark();
            let st = s.command(&stmt, 64);
            if st != Stop::Stopped {
                return;
            }
            let err = s.events_since(mark).iter().find_map(|e| if let Ev::Error(d, _, _) = e { Some(error_name(d)) } else { None });
            let pr = s.rt.verif_probe();
            let stored = pr.vars.iter().find(|(k, _)| k == &format!("V{}", suffix)).and_then(|(_, v)| from_val(v));
            ctx.count("assignments_checked");
            match (&want, err, stored) {
                (Err(MErr::Unspec), _, _) => {}
                (Ok(w), None, got) => {
                    let got = got.unwrap_or_else(|| V::zero(ty));
                    // a Single computed by `^` and widened to Double carries Single precision
                    let close = match (w.as_f64(), got.as_f64()) {
                        (Some(a), Some(b)) if has_pow => a == b || (a - b).abs() <= 1e-5 * a.abs().max(b.abs()),
                        _ => mv::same(w, &got, mv::Tol::Exact),
                    };
                    if got.ty() != ty || !close {
                        ctx.violation(
                            "wrong-store",
                            &format!("expr:store:{}", suffix),
                            &format!("{} stored {}; conversion of {} to the variable's type gives {}", stmt, got.show(), m.show(), w.show()),
                            &stmt,
                        );
                    }
                }
                (Ok(w), Some(e), _) => ctx.violation(
                    "spurious-error",
                    &format!("expr:store-error:{}", suffix),
                    &format!("{} raised {}; expected to store {}", stmt, e, w.show()),
                    &stmt,
                ),
                (Err(MErr::Code(c)), Some(e), _) => {
                    if c.name() != e {
                        ctx.violation("wrong-error", &format!("expr:store-wrong-error:{}", suffix), &format!("{} raised {}; expected {}", stmt, e, c.name()), &stmt);
                    }
                }
                (Err(_), None, got) => ctx.violation(
                    "missing-error",
                    &format!("expr:store-missing-error:{}", suffix),
                    &format!("{} stored {:?}; expected an error ({} does not fit the variable)", stmt, got.map(|g| g.show()), m.show()),
                    &stmt,
                ),
                (Err(_), Some(_), _) => {}
            }
        }
    }
}

fn top_op(x: &X) -> String {
    match x {
        X::Lit(_) => "literal".into(),
        X::Un(op, _) => format!("unary{}", op.text()),
        X::Bin(_, op, _) => op.text().to_string(),
    }
}
