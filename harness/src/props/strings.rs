//! C07 — string operations work on characters, as documented, within 0..255.
//! Reference model: Vec<char>. Observed through the real Runtime (`A$=<expr>:PRINT "[";A$;"]"`).

use crate::ctx::{Ctx, Tier};
use crate::drive::{error_name, transcript, Ev, Norm, Session, Stop};
use crate::mon;
use crate::rng::Rng;
use crate::Prop;

pub struct C07;

const ATOMS: [&str; 12] = ["A", "b", "C", "é", "ß", "→", "😀", " ", "Z", "0", "ab", "é→"];

fn rand_str(rng: &mut Rng) -> String {
    let n = match rng.usize(8) {
        0 => 0,
        1 => 1,
        2 => 254 + rng.usize(3),
        3 => 120 + rng.usize(20),
        _ => rng.range(2, 9) as usize,
    };
    let mut s = String::new();
    let mut count = 0;
    while count < n {
        let a = *rng.pick(&ATOMS[..]);
        if count + a.chars().count() > n {
            s.push('x');
            count += 1;
        } else {
            s.push_str(a);
            count += a.chars().count();
        }
    }
    s
}

fn pos_val(rng: &mut Rng, len: usize) -> i64 {
    match rng.usize(10) {
        0 => 0,
        1 => 1,
        2 => len as i64,
        3 => len as i64 + 1,
        4 => 255,
        5 => 256,
        6 => -1,
        7 => len as i64 - 1,
        _ => rng.range(0, len as i64 + 2),
    }
}

enum Want {
    Str(String),
    Num(i64),
    /// any BASIC error (the manual does not fix which)
    AnyError,
    Error(&'static str),
    Skip,
}

fn take(s: &str, from: usize, n: usize) -> String {
    s.chars().skip(from).take(n).collect()
}

fn lit(s: &str) -> String {
    format!("\"{}\"", s)
}

impl Prop for C07 {
    fn cases(&self, tier: Tier) -> u64 {
        match tier {
            Tier::Quick => 2_000_000,
            Tier::Thorough => 5_000_000,
        }
    }

    fn rule(&self) -> &'static str {
        "Calls of LEN, LEFT$, RIGHT$, MID$ (2 and 3 arguments), MID$ assignment, INSTR (2 and 3 arguments), ASC, CHR$, \
         STRING$ (code and string form), SPC, HEX$, OCT$, STR$, VAL, + and the six comparisons, with strings built from \
         ASCII, 2-, 3- and 4-byte characters of length 0, 1, 2..9, ~130 and 254..256, and positions/lengths 0, 1, len-1, \
         len, len+1, 255, 256, -1. Each is executed by a real Runtime as `A$=<expr>:PRINT \"[\";A$;\"]\"` (or PRINT for \
         numbers) and compared with a Vec<char> reference model: exact substring/position/code, STRING TOO LONG above \
         255 characters (also when the target is an array element or a string by DEFSTR), a BASIC error for \
         out-of-domain arguments; one case in eight uses a periodic string with a self-overlapping pattern; replies \
         typed at INPUT A$ are counted in characters. Distinct = hash of the statement; non-trivial = \
         a multi-byte string or a boundary argument is involved."
    }

    fn run_case(&mut self, _idx: u64, rng: &mut Rng, ctx: &mut Ctx) {
        // one case in eight: a periodic string and a pattern that overlaps itself (occurrences that overlap
        // an earlier one must still be found when the search starts behind it)
        let periodic = rng.chance(1, 8);
        let (s, t) = if periodic {
            let unit: String = (0..1 + rng.usize(2)).map(|_| *rng.pick(&ATOMS[..])).collect();
            let k = rng.range(3, 7) as usize;
            let head = if rng.chance(1, 3) { rng.pick(&ATOMS[..]).to_string() } else { String::new() };
            let uc = unit.chars().count();
            let t = take(&unit.repeat(k), 0, uc + 1 + rng.usize(uc * (k - 2)));
            (format!("{}{}{}", head, unit.repeat(k), if rng.chance(1, 3) { "Z" } else { "" }), t)
        } else {
            let s = rand_str(rng);
            let n = s.chars().count();
            let t = if rng.coin() { rand_str(rng) } else { take(&s, rng.usize(n + 1), rng.usize(4)) };
            (s, t)
        };
        let n = s.chars().count();
        let p = if periodic && rng.coin() { rng.range(1, n as i64 + 1) } else { pos_val(rng, n) };
        let l = pos_val(rng, n);
        let multibyte = s.len() != n || t.len() != t.chars().count();
        let boundary = p <= 1 || p >= n as i64 || l <= 0 || l >= n as i64;
        let which = rng.usize(23);
        if which == 22 {
            // a reply typed at INPUT is a string like any other: counted in characters
            let stmt = "INPUT A$:PRINT \"[\";A$;\"]\";LEN(A$)".to_string();
            if s.len() > 1000 || n > 255 {
                ctx.count("unspecified_skipped");
                return;
            }
            let text = format!("{}\n{}", stmt, s);
            mon::journal(&text);
            let mut sess = Session::new();
            sess.drain(8);
            let mark = sess.mark();
            sess.enter(&stmt);
            let st1 = sess.drain(64);
            if !matches!(st1, Stop::Input(..)) {
                ctx.violation("no-stop", "str:INPUT:no-prompt", &format!("no prompt: {:?}", st1), &text);
                return;
            }
            sess.enter(&s);
            let st2 = sess.drain(64);
            ctx.eval(&text, multibyte);
            ctx.cover("functions_called", "INPUT-reply");
            let out = transcript(sess.events_since(mark), Norm::STD);
            let w = s.trim_matches(' ');
            let exp = format!("<INPUT \"? \" caps=true>[{}] {} \nREADY.\n<STOPPED>", w, w.chars().count());
            if st2 != Stop::Stopped || out != exp {
                ctx.violation(
                    "wrong-string",
                    "str:INPUT-reply",
                    &format!("reply {:?} ({} characters, {} bytes) gave {:?}, expected {:?}", s.chars().take(60).collect::<String>(), n, s.len(), out.chars().take(300).collect::<String>(), exp.chars().take(300).collect::<String>()),
                    &text,
                );
            }
            return;
        }
        let (expr, want, name): (String, Want, &str) = match which {
            0 => (format!("LEN({})", lit(&s)), Want::Num(n as i64), "LEN"),
            1 => (
                format!("LEFT$({},{})", lit(&s), p),
                if p < 0 { Want::AnyError } else { Want::Str(take(&s, 0, p as usize)) },
                "LEFT$",
            ),
            2 => (
                format!("RIGHT$({},{})", lit(&s), p),
                if p < 0 { Want::AnyError } else { Want::Str(take(&s, n.saturating_sub(p as usize), n)) },
                "RIGHT$",
            ),
            3 => (
                format!("MID$({},{})", lit(&s), p),
                if p <= 0 { Want::AnyError } else { Want::Str(take(&s, p as usize - 1, n)) },
                "MID$2",
            ),
            4 | 5 => (
                format!("MID$({},{},{})", lit(&s), p, l),
                if p <= 0 || l < 0 { Want::AnyError } else { Want::Str(take(&s, p as usize - 1, l as usize)) },
                "MID$3",
            ),
            6 | 7 => {
                let sc: Vec<char> = s.chars().collect();
                let tc: Vec<char> = t.chars().collect();
                let found = if tc.is_empty() {
                    if sc.is_empty() {
                        -99
                    } else {
                        1
                    }
                } else {
                    (0..sc.len()).find(|i| sc[*i..].starts_with(&tc)).map(|i| i as i64 + 1).unwrap_or(0)
                };
                (format!("INSTR({},{})", lit(&s), lit(&t)), if found == -99 { Want::Skip } else { Want::Num(found) }, "INSTR2")
            }
            8 | 9 | 10 => {
                let sc: Vec<char> = s.chars().collect();
                let tc: Vec<char> = t.chars().collect();
                let want = if p <= 0 {
                    Want::AnyError
                } else if p as usize > sc.len() {
                    if tc.is_empty() { Want::Skip } else { Want::Num(0) }
                } else if tc.is_empty() {
                    Want::Num(p)
                } else {
                    Want::Num(
                        (p as usize - 1..sc.len()).find(|i| sc[*i..].starts_with(&tc)).map(|i| i as i64 + 1).unwrap_or(0),
                    )
                };
                (format!("INSTR({},{},{})", p, lit(&s), lit(&t)), want, "INSTR3")
            }
            11 => {
                let want = match s.chars().next() {
                    None => Want::AnyError,
                    // (codes above 32767 do not fit an Integer: the result is then a Single, still exact)
                    Some(c) => Want::Num(c as i64),
                };
                (format!("ASC({})", lit(&s)), want, "ASC")
            }
            12 => {
                let c = rng.range(-2, 300);
                let want = if c < 0 {
                    Want::AnyError
                } else if (35..=255).contains(&c) {
                    Want::Str(char::from_u32(c as u32).map(|c| c.to_string()).unwrap_or_default())
                } else {
                    Want::Skip
                };
                (format!("CHR$({})", c), want, "CHR$")
            }
            13 => {
                let k = pos_val(rng, 5);
                let want = if k < 0 {
                    Want::AnyError
                } else if t.is_empty() {
                    Want::Skip
                } else {
                    Want::Str(std::iter::repeat(t.chars().next().unwrap()).take(k as usize).collect())
                };
                (format!("STRING$({},{})", k, lit(&t)), want, "STRING$s")
            }
            14 => {
                let k = pos_val(rng, 5);
                let want = if k < 0 { Want::AnyError } else { Want::Str("-".repeat(k as usize)) };
                (format!("STRING$({},45)", k), want, "STRING$n")
            }
            15 => {
                let k = pos_val(rng, 5);
                let want = if k < 0 { Want::AnyError } else { Want::Str(" ".repeat(k as usize)) };
                (format!("SPC({})", k), want, "SPC")
            }
            16 => {
                let k = rng.range(-32768, 32767);
                let (f, w) = if rng.coin() {
                    ("HEX$", format!("{:X}", k as i16 as u16))
                } else {
                    ("OCT$", format!("{:o}", k as i16 as u16))
                };
                (format!("{}({})", f, k), Want::Str(w), "HEX$/OCT$")
            }
            17 => (format!("{}+{}", lit(&s), lit(&t)), Want::Str(format!("{}{}", s, t)), "+"),
            18 => {
                let op = *rng.pick(&["<", "<=", "=", "<>", ">", ">="]);
                let (a, b): (Vec<char>, Vec<char>) = (s.chars().collect(), t.chars().collect());
                let r = match op {
                    "<" => a < b,
                    "<=" => a <= b,
                    "=" => a == b,
                    "<>" => a != b,
                    ">" => a > b,
                    _ => a >= b,
                };
                (format!("{}{}{}", lit(&s), op, lit(&t)), Want::Num(-(r as i64)), "compare")
            }
            19 => {
                let k = rng.range(-999, 999);
                let w = if k < 0 { format!("{}", k) } else { format!(" {}", k) };
                (format!("STR$({})", k), Want::Str(w), "STR$")
            }
            20 => {
                let cases: [(&str, Want); 22] = [
                    // radix prefixes inside VAL are not documented: the value is not judged, a crash is
                    ("&", Want::Skip),
                    ("&H", Want::Skip),
                    ("&HG1", Want::Skip),
                    ("&9", Want::Skip),
                    ("&é", Want::Skip),
                    ("&h", Want::Skip),
                    ("&H1F", Want::Skip),
                    ("1&", Want::Num(1)),
                    ("12", Want::Num(12)),
                    ("  7", Want::Num(7)),
                    ("12AB", Want::Num(12)),
                    ("", Want::Num(0)),
                    ("ABC", Want::Num(0)),
                    ("-3X", Want::Num(-3)),
                    ("1E2", Want::Num(100)),
                    ("1E2E", Want::Num(100)),
                    ("INF", Want::Num(0)),
                    ("inf", Want::Num(0)),
                    ("NAN", Want::Num(0)),
                    ("infinity", Want::Num(0)),
                    ("nanometre", Want::Num(0)),
                    ("é5", Want::Num(0)),
                ];
                let i = rng.usize(cases.len());
                let (src, w) = &cases[i];
                let w = match w {
                    Want::Num(n) => Want::Num(*n),
                    _ => Want::Skip,
                };
                (format!("VAL({})", lit(src)), w, "VAL")
            }
            _ => {
                // MID$ assignment
                let with3 = rng.coin();
                let sc: Vec<char> = s.chars().collect();
                let tc: Vec<char> = t.chars().collect();
                let want = if p <= 0 || (with3 && l < 0) {
                    Want::AnyError
                } else if p as usize > sc.len() {
                    Want::Skip
                } else {
                    let mut out = sc.clone();
                    let lim = if with3 { l as usize } else { usize::MAX };
                    for (k, c) in tc.iter().enumerate() {
                        if k >= lim || p as usize - 1 + k >= out.len() {
                            break;
                        }
                        out[p as usize - 1 + k] = *c;
                    }
                    Want::Str(out.into_iter().collect())
                };
                let st = if with3 {
                    format!("B$={}:MID$(B$,{},{})={}:A$=B$", lit(&s), p, l, lit(&t))
                } else {
                    format!("B$={}:MID$(B$,{})={}:A$=B$", lit(&s), p, lit(&t))
                };
                // rendered as a complete statement below
                (st, want, "MID$=")
            }
        };
        let is_num = matches!(want, Want::Num(_)) || matches!(name, "LEN" | "INSTR2" | "INSTR3" | "ASC" | "compare" | "VAL");
        let stmt = if name == "MID$=" {
            format!("{}:PRINT \"[\";A$;\"]\"", expr)
        } else if is_num {
            format!("PRINT {}", expr)
        } else {
            // the target: a string scalar, an array element, or names that are strings by DEFSTR
            let (pre, tv) = *rng.pick(&[("", "A$"), ("", "A$"), ("", "B$(3)"), ("DEFSTR S:", "S"), ("DEFSTR S:", "S(2)"), ("DEFSTR R-T:", "SUM"), ("DEFSTR A-Z:", "Q1(1,1)")]);
            format!("{}{}={}:PRINT \"[\";{};\"]\"", pre, tv, expr, tv)
        };
        if stmt.len() > 1000 {
            ctx.count("skipped_line_too_long");
            return;
        }
        // the 255-character rule applies to what is stored
        let want = match want {
            // a too-long result of `+` must be STRING TOO LONG; for SPC/STRING$ the manual only
            // promises an error (the implementation says OVERFLOW for a count above 255)
            Want::Str(w) if w.chars().count() > 255 => {
                if name == "+" {
                    Want::Error("STRING TOO LONG")
                } else {
                    Want::AnyError
                }
            }
            other => other,
        };
        let s_used = s.chars().count() > 255 && stmt.contains(&lit(&s));
        let t_used = t.chars().count() > 255 && stmt.contains(&lit(&t));
        let want = if s_used || t_used { Want::Error("STRING TOO LONG") } else { want };
        mon::journal(&stmt);
        let mut sess = Session::new();
        sess.drain(8);
        let mark = sess.mark();
        let stop = sess.command(&stmt, 64);
        ctx.eval(&stmt, multibyte || boundary);
        ctx.cover("functions_called", name);
        if stop != Stop::Stopped {
            ctx.violation("no-stop", "str:no-stop", "did not return to the prompt", &stmt);
            return;
        }
        let evs = sess.events_since(mark).to_vec();
        let err = evs.iter().find_map(|e| if let Ev::Error(d, _, _) = e { Some(error_name(d)) } else { None });
        let out = transcript(&evs, Norm::STD);
        if ctx.want_sample() && multibyte {
            ctx.sample(&format!("{}  -->  {:?}", stmt, out));
        }
        let sig_arg = if p <= 0 { "pos<=0" } else if p as usize > n { "pos>len" } else { "pos-in" };
        match want {
            Want::Skip => ctx.count("unspecified_skipped"),
            Want::AnyError => {
                ctx.count("error_expected");
                if err.is_none() {
                    ctx.violation(
                        "missing-error",
                        &format!("str:{}:missing-error", name),
                        &format!("{} has an out-of-domain argument but printed {:?}", stmt, out),
                        &stmt,
                    );
                }
            }
            Want::Error(code) => {
                if err.as_deref() != Some(code) {
                    ctx.violation(
                        "wrong-error",
                        &format!("str:{}:expected-{}", name, code),
                        &format!("{} should raise {} but gave {:?}", stmt.chars().take(300).collect::<String>(), code, out.chars().take(300).collect::<String>()),
                        &stmt,
                    );
                }
            }
            Want::Str(w) => {
                let exp = format!("[{}]\nREADY.\n<STOPPED>", w);
                if out != exp {
                    ctx.violation(
                        "wrong-string",
                        &format!("str:{}:{}", name, sig_arg),
                        &format!("{} gave {:?}, the character model gives {:?}", stmt.chars().take(400).collect::<String>(), out.chars().take(300).collect::<String>(), exp.chars().take(300).collect::<String>()),
                        &stmt,
                    );
                }
            }
            Want::Num(v) => {
                let exp = format!("{}{} \nREADY.\n<STOPPED>", if v < 0 { "-" } else { " " }, v.abs());
                if out != exp {
                    ctx.violation(
                        "wrong-number",
                        &format!("str:{}:{}", name, if name == "VAL" { expr.clone() } else { sig_arg.to_string() }),
                        &format!("{} gave {:?}, the character model gives {:?}", stmt.chars().take(400).collect::<String>(), out, exp),
                        &stmt,
                    );
                }
            }
        }
    }
}
