//! C08 — 16-bit Integer arithmetic is always checked.
//!
//! Oracle: exact i64 arithmetic, range-checked (model::val). Observed: the public
//! `Operation::*`, `Function::{abs,cint}` and `TryFrom<Val> for i16`, plus the same operators
//! reached through `PRINT a op b` / `A%=expr` in a real `Runtime`.

use crate::conv::{from_val, show_val, to_val};
use crate::ctx::{Ctx, Tier};
use crate::drive::{error_name, transcript, Norm, Session, Stop};
use crate::model::val::{self as mv, BinOp, Code, MErr, UnOp, V};
use crate::mon;
use crate::rng::Rng;
use crate::Prop;
use basic::mach::{Function, Operation, Val};
use std::convert::TryFrom;

pub struct C08 {
    bset: Vec<i16>,
}

const N_UNARY_CHUNKS: u64 = 64;
const N_FLOAT_CASES: u64 = 64;
const N_PIPE_QUICK: u64 = 12_000;
const N_PIPE_THOROUGH: u64 = 200_000;

fn boundary_set() -> Vec<i16> {
    let mut v: Vec<i32> = Vec::new();
    for k in 0..=40 {
        v.push(k);
        v.push(-k);
        v.push(32767 - k);
        v.push(-32768 + k);
    }
    for p in 1..15 {
        let q = 1i32 << p;
        for d in -2..=2 {
            v.push(q + d);
            v.push(-q + d);
        }
    }
    for x in [
        100, 127, 128, 129, 180, 181, 182, 255, 256, 257, 1000, 10000, 16383, 16384, 16385, 181 * 181,
        -100, -127, -128, -129, -181, -182, -255, -256, -257, -1000, -10000, -16383, -16384, -16385, 3, 5, 7, 11,
        13, 17, 19, 23, 29, 31, 37, 41, 43, 47, 4681, 9362, 10922, 10923, 21845, 21846, -21845, -21846,
    ] {
        v.push(x);
    }
    let mut v: Vec<i16> = v
        .into_iter()
        .filter(|x| (-32768..=32767).contains(x))
        .map(|x| x as i16)
        .collect();
    v.sort();
    v.dedup();
    v
}

impl C08 {
    pub fn new() -> C08 {
        C08 {
            bset: boundary_set(),
        }
    }

    fn layout(&self, tier: Tier) -> [u64; 5] {
        // unary, boundary rows, float, pipeline, exhaustive rows
        let pipe = if tier == Tier::Quick {
            N_PIPE_QUICK
        } else {
            N_PIPE_THOROUGH
        };
        let exh = if tier == Tier::Quick { 0 } else { 65536 };
        [
            N_UNARY_CHUNKS,
            self.bset.len() as u64,
            N_FLOAT_CASES,
            pipe,
            exh,
        ]
    }
}

fn code_of(e: &basic::lang::Error) -> String {
    error_name(&e.to_string())
}

/// Compares one implementation result with the model; reports and returns false on disagreement.
fn judge(
    ctx: &mut Ctx,
    opname: &str,
    operands: &str,
    model: &mv::MR<V>,
    got: &Result<Val, basic::lang::Error>,
) -> bool {
    match (model, got) {
        (Ok(m), Ok(g)) => {
            if let Some(gv) = from_val(g) {
                if mv::same(m, &gv, mv::Tol::Exact) {
                    return true;
                }
            }
            ctx.violation(
                "wrong-value",
                &format!("{}:wrong-value", opname),
                &format!(
                    "{} {} returned {} but the exact result is {}",
                    opname,
                    operands,
                    show_val(g),
                    m.show()
                ),
                &format!("{} {}", opname, operands),
            );
            false
        }
        (Err(MErr::Code(c)), Err(e)) => {
            if code_of(e) == c.name() {
                return true;
            }
            ctx.violation(
                "wrong-error",
                &format!("{}:wrong-error", opname),
                &format!(
                    "{} {} raised {} but {} is the appropriate error",
                    opname,
                    operands,
                    code_of(e),
                    c.name()
                ),
                &format!("{} {}", opname, operands),
            );
            false
        }
        (Err(MErr::Code(c)), Ok(g)) => {
            ctx.violation(
                "missing-error",
                &format!("{}:missing-error", opname),
                &format!(
                    "{} {} returned {} instead of raising {}",
                    opname,
                    operands,
                    show_val(g),
                    c.name()
                ),
                &format!("{} {}", opname, operands),
            );
            false
        }
        (Ok(m), Err(e)) => {
            ctx.violation(
                "spurious-error",
                &format!("{}:spurious-error", opname),
                &format!(
                    "{} {} raised {} but the exact result {} is representable",
                    opname,
                    operands,
                    code_of(e),
                    m.show()
                ),
                &format!("{} {}", opname, operands),
            );
            false
        }
        (Err(MErr::Any), Err(_)) => true,
        (Err(MErr::Any), Ok(g)) => {
            ctx.violation(
                "missing-error",
                &format!("{}:missing-error", opname),
                &format!("{} {} returned {} instead of an error", opname, operands, show_val(g)),
                &format!("{} {}", opname, operands),
            );
            false
        }
        (Err(MErr::Unspec), _) => true,
    }
}

type BinF = fn(Val, Val) -> Result<Val, basic::lang::Error>;

const BIN: [(&str, BinOp, BinF); 6] = [
    ("sum", BinOp::Add, Operation::sum),
    ("subtract", BinOp::Sub, Operation::subtract),
    ("multiply", BinOp::Mul, Operation::multiply),
    ("divint", BinOp::IDiv, Operation::divint),
    ("remainder", BinOp::Mod, Operation::remainder),
    ("power", BinOp::Pow, Operation::power),
];

fn nontrivial_pair(op: BinOp, a: i16, b: i16, model: &mv::MR<V>) -> bool {
    match model {
        Err(_) => true,
        Ok(V::I(r)) => {
            *r >= 32767 - 256 || *r <= -32768 + 256 || a == i16::MIN || b == i16::MIN || (op == BinOp::IDiv && b < 0)
        }
        Ok(_) => true,
    }
}

impl C08 {
    /// One row: left operand `a` against `rights`, for the operators `ops`.
    fn row(&self, ctx: &mut Ctx, a: i16, rights: &mut dyn Iterator<Item = i16>, nops: usize, by_construction: bool) {
        let rights: Vec<i16> = rights.collect();
        for (name, op, f) in BIN.iter().take(nops) {
            if *op == BinOp::Pow && rights.len() > 1000 {
                continue;
            }
            // fast path: whole row under one catch; on panic, redo call by call to name the operands
            let mut nontriv = 0u64;
            let res = mon::catch(|| {
                let mut bad: Vec<(i16, mv::MR<V>, Result<Val, basic::lang::Error>)> = Vec::new();
                let mut nt = 0u64;
                for &b in &rights {
                    let model = mv::binop(*op, &V::I(a), &V::I(b));
                    let got = f(Val::Integer(a), Val::Integer(b));
                    let ok = match (&model, &got) {
                        (Ok(V::I(m)), Ok(Val::Integer(g))) => m == g,
                        // negative exponent: outside the property (it speaks of non-negative
                        // Integer exponents); only "does not crash, yields a Single" is observed
                        (Ok(V::S(_)), Ok(Val::Single(_))) => true,
                        (Err(MErr::Code(c)), Err(e)) => error_name(&e.to_string()) == c.name(),
                        _ => false,
                    };
                    if nontrivial_pair(*op, a, b, &model) {
                        nt += 1;
                    }
                    if !ok && bad.len() < 3 {
                        bad.push((b, model, got));
                    }
                }
                (bad, nt)
            });
            match res {
                Ok((bad, nt)) => {
                    nontriv += nt;
                    for (b, model, got) in bad {
                        judge(ctx, name, &format!("({}, {})", a, b), &model, &got);
                    }
                }
                Err(_) => {
                    for &b in &rights {
                        let r = mon::catch(|| f(Val::Integer(a), Val::Integer(b)));
                        if let Err((msg, loc)) = r {
                            ctx.violation(
                                "panic",
                                &format!("{}:panic", name),
                                &format!("{} ({}, {}) panicked: {} at {}", name, a, b, msg, loc),
                                &format!("{} ({}, {})", name, a, b),
                            );
                            break;
                        }
                    }
                }
            }
            ctx.evals += rights.len() as u64;
            ctx.add(&format!("pairs_{}", name), rights.len() as u64);
            if by_construction {
                ctx.distinct_by_construction += nontriv;
            } else {
                ctx.add("nontrivial_boundary_pairs", nontriv);
            }
        }
    }

    fn unary_chunk(&self, ctx: &mut Ctx, chunk: u64) {
        let per = 65536 / N_UNARY_CHUNKS;
        let lo = chunk * per;
        for u in lo..lo + per {
            let a = (u as i64 - 32768) as i16;
            let ops: [(&str, mv::MR<V>, Box<dyn Fn() -> Result<Val, basic::lang::Error>>); 3] = [
                (
                    "negate",
                    mv::unop(UnOp::Neg, &V::I(a)),
                    Box::new(move || Operation::negate(Val::Integer(a))),
                ),
                (
                    "abs",
                    if a == i16::MIN {
                        mv::err(Code::Overflow)
                    } else {
                        Ok(V::I(a.wrapping_abs()))
                    },
                    Box::new(move || Function::abs(Val::Integer(a))),
                ),
                (
                    "cint",
                    Ok(V::I(a)),
                    Box::new(move || Function::cint(Val::Integer(a))),
                ),
            ];
            for (name, model, f) in ops.iter() {
                match mon::catch(|| f()) {
                    Ok(got) => {
                        judge(ctx, name, &format!("({})", a), model, &got);
                    }
                    Err((msg, loc)) => ctx.violation(
                        "panic",
                        &format!("{}:panic", name),
                        &format!("{} ({}) panicked: {} at {}", name, a, msg, loc),
                        &format!("{} ({})", name, a),
                    ),
                }
                ctx.evals += 1;
                ctx.distinct_by_construction += 1;
            }
        }
        ctx.add("unary_values", per);
    }

    fn float_case(&self, ctx: &mut Ctx, k: u64, rng: &mut Rng) {
        // floating values around the conversion limits, stepping by 2^-4 and by ulp, plus specials
        let centres: [f64; 8] = [
            32767.0, 32768.0, -32768.0, -32769.0, 0.0, 65535.0, 65536.0, -65536.0,
        ];
        let mut vals: Vec<f64> = Vec::new();
        let c = centres[(k % 8) as usize];
        for i in -40..=40 {
            vals.push(c + i as f64 / 16.0);
        }
        let mut x = c as f32;
        for _ in 0..20 {
            vals.push(x as f64);
            x = f32::from_bits(if x >= 0.0 { x.to_bits() + 1 } else { x.to_bits() - 1 });
        }
        let mut x = c as f32;
        for _ in 0..20 {
            vals.push(x as f64);
            x = if x > 0.0 {
                f32::from_bits(x.to_bits() - 1)
            } else if x < 0.0 {
                f32::from_bits(x.to_bits() + 1)
            } else {
                -f32::MIN_POSITIVE
            };
        }
        // c +- 2^-k: values that only a Double can tell apart from the limit
        for kk in 1..=44 {
            vals.push(c + (0.5f64).powi(kk));
            vals.push(c - (0.5f64).powi(kk));
        }
        let mut d = c;
        for _ in 0..20 {
            vals.push(d);
            d = f64::from_bits(if d >= 0.0 { d.to_bits() + 1 } else { d.to_bits() - 1 });
        }
        for s in [
            f64::NAN,
            f64::INFINITY,
            f64::NEG_INFINITY,
            1e38,
            -1e38,
            1e300,
            -1e300,
            -0.0,
            0.5,
            -0.5,
            -0.0000001,
            32767.999999,
            -32768.000001,
            -32768.9999,
        ] {
            vals.push(s);
        }
        for _ in 0..40 {
            vals.push((rng.f64() - 0.5) * 140000.0);
        }
        for v in vals {
            // as Double
            let model = mv::float_to_int(v).map(V::I);
            for (name, got) in [
                (
                    "i16::try_from(Double)",
                    mon::catch(|| i16::try_from(Val::Double(v)).map(Val::Integer)),
                ),
                ("cint(Double)", mon::catch(|| Function::cint(Val::Double(v)))),
            ] {
                self.float_judge(ctx, name, &format!("({:?})", v), &model, got);
            }
            // as Single
            let s = v as f32;
            let model = mv::float_to_int(s as f64).map(V::I);
            for (name, got) in [
                (
                    "i16::try_from(Single)",
                    mon::catch(|| i16::try_from(Val::Single(s)).map(Val::Integer)),
                ),
                ("cint(Single)", mon::catch(|| Function::cint(Val::Single(s)))),
                // \ and MOD convert their operands the same way
                (
                    "divint(Single,1)",
                    mon::catch(|| Operation::divint(Val::Single(s), Val::Integer(1))),
                ),
            ] {
                self.float_judge(ctx, name, &format!("({:?})", s), &model, got);
            }
        }
    }

    fn float_judge(
        &self,
        ctx: &mut Ctx,
        name: &str,
        operands: &str,
        model: &mv::MR<V>,
        got: Result<Result<Val, basic::lang::Error>, (String, String)>,
    ) {
        ctx.evals += 1;
        ctx.count("float_conversions");
        let key = format!("{}{}", name, operands);
        ctx.hashes.insert(crate::rng::hash_str(&key));
        match got {
            Ok(g) => {
                judge(ctx, name, operands, model, &g);
            }
            Err((msg, loc)) => ctx.violation(
                "panic",
                &format!("{}:panic", name),
                &format!("{} {} panicked: {} at {}", name, operands, msg, loc),
                &key,
            ),
        }
    }

    /// `\` and MOD with a fractional divisor (floored to 0: DIVISION BY ZERO; to -1: checked like any other), and FOR
    /// on an Integer variable with a fractional STEP (every NEXT stores an Integer or reports OVERFLOW).
    fn fraction_case(&self, ctx: &mut Ctx, rng: &mut Rng, for_loop: bool) {
        let mut s = Session::new();
        s.drain(8);
        if for_loop {
            let a0 = *rng.pick(&[-32000i64, 32000, -32768, 32760, 1, -5, 100]);
            let b0 = *rng.pick(&[-33000i64, 33000, 32767, -32768, 4, 40000, -40000]);
            // (a step between -1 and 1 would floor back onto the same value for ever: that is what BASIC does)
            let st = *rng.pick(&["-300.5", "300.5", "1.5", "-1.5", "2.25#", "100.125", "-1000.5#", "7.75"]);
            let var = *rng.pick(&["I%", "K9%"]);
            let start = if a0 == -32768 { "-32767-1".to_string() } else { a0.to_string() };
            let text = format!("FOR {}={} TO {} STEP {}:NEXT:PRINT {}", var, start, b0, st, var);
            mon::journal(&text);
            let mark = s.mark();
            let stop = s.command(&text, 400);
            let out = transcript(s.events_since(mark), Norm::STD);
            ctx.eval(&text, true);
            ctx.count("fractional_step_loops");
            if stop == Stop::Budget {
                return;
            }
            let ok = out.starts_with("?OVERFLOW")
                || out.strip_suffix(" \nREADY.\n<STOPPED>").and_then(|t| t.trim().parse::<i64>().ok()).map(|v| (-32768..=32767).contains(&v)).unwrap_or(false);
            let pr = s.rt.verif_probe();
            let mistyped: Vec<String> = pr.vars.iter().filter(|(k, _)| k.as_str() == var).filter(|(_, v)| !matches!(v, Val::Integer(_))).map(|(k, v)| format!("{}={:?}", k, v)).collect();
            if stop != Stop::Stopped || !ok || !mistyped.is_empty() {
                ctx.violation(
                    "pipeline-mismatch",
                    "pipeline:fractional-step",
                    &format!("{:?} printed {:?} (expected ?OVERFLOW or an Integer within range); held by the Integer variable: {:?}", text, out, mistyped),
                    &text,
                );
            }
            return;
        }
        let a = *rng.pick(&self.bset) as i64;
        let (ft, fv) = *rng.pick(&[("0.5", 0.5f64), (".25", 0.25), ("0.999", 0.999), ("1E-10", 1e-10), ("0.5#", 0.5), ("-0.5", -0.5), ("-.001", -0.001), ("-0.999#", -0.999), ("1.5", 1.5), ("-1.5", -1.5)]);
        let modop = rng.coin();
        let text = format!("PRINT {} {} {}", if a == -32768 { "(-32767-1)".to_string() } else { format!("({})", a) }, if modop { "MOD" } else { "\\" }, ft);
        mon::journal(&text);
        let d = fv.floor() as i64;
        let want: Result<i64, &str> = if d == 0 {
            Err("DIVISION BY ZERO")
        } else if modop {
            Ok(a % d)
        } else {
            let q = a / d; // truncating, like the Integer division of the manual
            if (-32768..=32767).contains(&q) { Ok(q) } else { Err("OVERFLOW") }
        };
        let mark = s.mark();
        let stop = s.command(&text, 64);
        let out = transcript(s.events_since(mark), Norm::STD);
        ctx.eval(&text, true);
        ctx.count("fractional_divisor_statements");
        let expect = match want {
            Ok(n) => format!("{}{} \nREADY.\n<STOPPED>", if n < 0 { "-" } else { " " }, n.abs()),
            Err(e) => format!("?{}\nREADY.\n<STOPPED>", e),
        };
        if stop != Stop::Stopped || out != expect {
            ctx.violation("pipeline-mismatch", "pipeline:fractional-divisor", &format!("{:?} printed {:?}, expected {:?}", text, out, expect), &text);
        }
    }

    /// A variable that held a floating value when a DEFINT made it an Integer variable: whatever it reads as
    /// afterwards, arithmetic stored back into it is Integer arithmetic -- OVERFLOW or a value within the range,
    /// held as an Integer.
    fn retyped_variable_case(&self, ctx: &mut Ctx, rng: &mut Rng) {
        let (name, def) = *rng.pick(&[("SUM", "DEFINT S"), ("ZZ", "DEFINT X-Z"), ("AB(2)", "DEFINT A"), ("S", "DEFINT S"), ("Q1", "DEFINT A-Z"), ("MM(1,1)", "DEFINT M")]);
        let big = *rng.pick(&["30000", "32767.5", "1E10", "-40000", "32000.25", "-32768.5", "65535"]);
        let k = *rng.pick(&["20000", "1", "-20000", "0.75", "32767"]);
        let text = format!("{}={}:{}:{}={}+{}:PRINT {}", name, big, def, name, name, k, name);
        mon::journal(&text);
        let mut s = Session::new();
        s.drain(8);
        let mark = s.mark();
        if s.command(&text, 64) != Stop::Stopped {
            ctx.violation("no-stop", "pipeline:no-stop", &format!("{:?} did not return to the prompt", text), &text);
            return;
        }
        let out = transcript(s.events_since(mark), Norm::STD);
        ctx.eval(&text, true);
        ctx.count("retyped_variable_statements");
        let ok = if out.starts_with("?OVERFLOW") {
            true
        } else {
            out.strip_suffix(" \nREADY.\n<STOPPED>").and_then(|t| t.trim().parse::<i64>().ok()).map(|v| (-32768..=32767).contains(&v)).unwrap_or(false)
        };
        let pr = s.rt.verif_probe();
        let base = name.split('(').next().unwrap_or(name);
        let mistyped: Vec<String> = pr
            .vars
            .iter()
            .filter(|(k, _)| k.as_str() == base || k.ends_with(&format!(",{}", base)))
            .filter(|(_, v)| !matches!(v, Val::Integer(_)))
            .map(|(k, v)| format!("{}={:?}", k, v))
            .collect();
        if !ok || !mistyped.is_empty() {
            ctx.violation(
                "pipeline-mismatch",
                "pipeline:retyped-variable",
                &format!("{:?} printed {:?} (expected ?OVERFLOW or an Integer within range); non-Integer values held by the Integer variable: {:?}", text, out, mistyped),
                &text,
            );
        }
    }

    /// A break (interrupt) arriving at any instruction boundary of a program whose Integer arithmetic fails, then
    /// CONT: the OVERFLOW / DIVISION BY ZERO is still reported and nothing behind the failing statement runs.
    fn interrupted_error_case(&self, ctx: &mut Ctx, rng: &mut Rng) {
        const PROGS: [(&[&str], &str, &str); 6] = [
            (&["10 A%=30000", "20 B%=A%*1.5", "30 PRINT \"AFTER\";B%"], "OVERFLOW", "AFTER"),
            (&["10 FOR I%=32766 TO 32767:NEXT", "20 PRINT \"AFTER\";I%"], "OVERFLOW", "AFTER"),
            (&["10 A%=-32767-1", "20 PRINT -A%", "30 PRINT \"AFTER\""], "OVERFLOW", "AFTER"),
            (&["10 A%=200:B%=A%*A%:PRINT \"AFTER\";B%"], "OVERFLOW", "AFTER"),
            (&["10 A%=7:PRINT \"X\";:B%=A%\\0:PRINT \"AFTER\""], "DIVISION BY ZERO", "AFTER"),
            (&["10 DIM Q%(3)", "20 FOR I=0 TO 3:Q%(I)=16000*(I+1):NEXT", "30 PRINT \"AFTER\""], "OVERFLOW", "AFTER"),
        ];
        let (lines, err, after) = PROGS[rng.usize(PROGS.len())];
        let k = rng.range(1, 60) as u64;
        let text = format!("{}\nRUN  (interrupt after {} execute(1) calls, then CONT)", lines.join("\n"), k);
        mon::journal(&text);
        let mut s = Session::new();
        s.drain(8);
        for l in lines {
            s.command(l, 16);
        }
        let mark = s.mark();
        s.enter("RUN");
        let mut stopped = false;
        for _ in 0..k {
            if let Some(Stop::Stopped) = s.step_q(1) {
                stopped = true;
                break;
            }
        }
        if !stopped {
            s.interrupt();
            if s.drain(64) != Stop::Stopped {
                ctx.violation("no-stop", "pipeline:interrupt-no-stop", "an interrupted run did not stop", &text);
                return;
            }
            let sofar = transcript(s.events_since(mark), Norm::STD);
            if sofar.contains("?BREAK") && !sofar.contains("?BREAK IN") {
                // the break landed in the direct RUN command itself: nothing to continue
                ctx.count("interrupts_before_the_program_started");
                return;
            }
            if sofar.contains("?BREAK") && !sofar.contains(err) {
                s.enter("CONT");
                if s.drain(4000) != Stop::Stopped {
                    ctx.violation("no-stop", "pipeline:cont-no-stop", "CONT did not return to the prompt", &text);
                    return;
                }
            }
        }
        let out = transcript(s.events_since(mark), Norm::STD);
        ctx.eval(&text, true);
        ctx.count("interrupted_error_runs");
        if !out.contains(err) || out.contains(after) {
            ctx.violation(
                "pipeline-mismatch",
                "pipeline:interrupted-error",
                &format!("the run must end in ?{} and never reach {:?}; transcript {:?}", err, after, out),
                &text,
            );
        }
    }

    /// Integer literals in every spelling (decimal, &H, &octal) under unary minus, ABS and division by -1 written
    /// directly in the expression, where a compiler may fold constants: the value the literal itself prints as is
    /// taken from the interpreter, the operation on it must be exact or OVERFLOW.
    fn literal_fold_case(&self, ctx: &mut Ctx, rng: &mut Rng) {
        let u: u32 = match rng.usize(4) {
            0 => *rng.pick(&[0x7FFFu32, 0x8000, 0x8001, 0xFFFF, 0x7FFE, 0, 1, 0x10000, 0xFFFE]),
            1 => rng.below(0x10000) as u32,
            _ => (*rng.pick(&self.bset) as i32).unsigned_abs(),
        };
        let lit = match rng.usize(4) {
            0 => format!("&H{:X}", u),
            1 => format!("&{:o}", u),
            2 => format!("&h{:x}", u),
            _ => format!("{}", u.min(32767)),
        };
        let first = format!("PRINT {}", lit);
        let mut s = Session::new();
        s.drain(8);
        let mark = s.mark();
        if s.command(&first, 64) != Stop::Stopped {
            ctx.violation("no-stop", "pipeline:no-stop", &format!("{:?} did not return to the prompt", first), &first);
            return;
        }
        let out = transcript(s.events_since(mark), Norm::STD);
        let shown = out.strip_suffix(" \nREADY.\n<STOPPED>").map(|t| t.trim().to_string());
        let v: i64 = match shown.and_then(|t| t.parse::<i64>().ok()) {
            Some(v) if (-32768..=32767).contains(&v) => v,
            _ => {
                // the literal itself is refused (or is not an Integer): nothing to fold
                ctx.count("literals_refused");
                return;
            }
        };
        let chk = |x: i64| -> Result<i64, ()> { if (-32768..=32767).contains(&x) { Ok(x) } else { Err(()) } };
        let neg = |x: i64| chk(-x);
        let (form, model): (&str, Result<i64, ()>) = match rng.usize(10) {
            0 => ("-{}", neg(v)),
            1 => ("- -{}", neg(v).and_then(neg)),
            2 => ("-(-{})", neg(v).and_then(neg)),
            3 => ("ABS({})", chk(v.abs())),
            4 => ("ABS(-{})", neg(v).and_then(|x| chk(x.abs()))),
            5 => ("0-{}", chk(-v)),
            6 => ("-{}-1", neg(v).and_then(|x| chk(x - 1))),
            7 => ("{}\\-1", chk(-v)),
            8 => ("-{}\\1", neg(v)),
            _ => ("-{}*1", neg(v)),
        };
        let text = format!("PRINT {}", form.replace("{}", &lit));
        mon::journal(&text);
        let mark = s.mark();
        let stop = s.command(&text, 64);
        let out = transcript(s.events_since(mark), Norm::STD);
        ctx.eval(&text, true);
        ctx.count("literal_fold_statements");
        if stop != Stop::Stopped {
            ctx.violation("no-stop", "pipeline:no-stop", &format!("{:?} did not return to the prompt: {:?}", text, stop), &text);
            return;
        }
        let expect = match model {
            Ok(n) => format!("{}{} \nREADY.\n<STOPPED>", if n < 0 { "-" } else { " " }, n.abs()),
            Err(()) => "?OVERFLOW\nREADY.\n<STOPPED>".to_string(),
        };
        if out != expect {
            ctx.violation(
                "pipeline-mismatch",
                "pipeline:literal-fold",
                &format!("{:?} prints {}; {:?} printed {:?}, expected {:?}", first, v, text, out, expect),
                &text,
            );
        }
    }

    /// The same operators through the whole pipeline, so that the lexer/parser/codegen/VM are
    /// known to dispatch Integer operands to the checked routines.
    fn pipeline_case(&self, ctx: &mut Ctx, rng: &mut Rng) {
        let a = *rng.pick(&self.bset);
        let b = if rng.chance(1, 4) {
            rng.range(-32768, 32767) as i16
        } else {
            *rng.pick(&self.bset)
        };
        let forms = [
            ("+", BinOp::Add),
            ("-", BinOp::Sub),
            ("*", BinOp::Mul),
            ("\\", BinOp::IDiv),
            ("MOD", BinOp::Mod),
            ("^", BinOp::Pow),
        ];
        let which = rng.usize(20);
        if which >= 18 {
            return self.fraction_case(ctx, rng, which == 19);
        }
        if which == 16 {
            return self.interrupted_error_case(ctx, rng);
        }
        if which == 17 {
            return self.retyped_variable_case(ctx, rng);
        }
        if which >= 13 {
            return self.literal_fold_case(ctx, rng);
        }
        let (text, model): (String, mv::MR<V>) = if which == 9 {
            // FOR / NEXT on an Integer variable: the increment is Integer arithmetic like any other
            let a0 = *rng.pick(&[32760i32, 32766, 32767, -32768, -32767, -32760, 0, 30000, -30000, 1]);
            let c = *rng.pick(&[1i32, -1, 2, 7, 100, 20000, -20000, 32767, -32768]);
            let b0 = *rng.pick(&[32767i32, 32766, -32768, -32767, 0, 32760, -32760]);
            let mut i = a0 as i64;
            let mut res: mv::MR<V> = Err(MErr::Unspec);
            for _ in 0..100_000 {
                let n = i + c as i64;
                if !(-32768..=32767).contains(&n) {
                    res = mv::err(Code::Overflow);
                    break;
                }
                i = n;
                if (c < 0 && i < b0 as i64) || (c >= 0 && i > b0 as i64) {
                    res = Ok(V::I(i as i16));
                    break;
                }
            }
            let var = *rng.pick(&["I%", "K9%", "J%"]);
            let start = if a0 == -32768 { "-32767-1".to_string() } else { a0.to_string() };
            let limit = if b0 == -32768 { "-32767-1".to_string() } else { b0.to_string() };
            let step = if c == -32768 { "-32767-1".to_string() } else { c.to_string() };
            (format!("FOR {}={} TO {} STEP {}:NEXT:PRINT {}", var, start, limit, step, var), res)
        } else if which == 10 {
            let (t, op) = forms[rng.usize(5)];
            (
                format!("DEFINT A-B:A={}:B={}:PRINT A {} B", a, b, t).replace("=-32768", "=-32767-1"),
                mv::binop(op, &V::I(a), &V::I(b)),
            )
        } else if which == 11 {
            let (t, op) = forms[rng.usize(3)];
            (
                format!("Q%(3)={}:Q%(3)=Q%(3) {} {}:PRINT Q%(3)", a, t, if b < 0 { format!("({})", b) } else { b.to_string() }).replace("-32768", "-32767-1"),
                mv::binop(op, &V::I(a), &V::I(b)),
            )
        } else if which == 12 {
            // not-a-number and infinities never become Integers
            let e = *rng.pick(&["0/0", "SQR(-1)", "LOG(-1)", "1/0", "-1/0", "1E38*10", "Z/Z"]);
            let f = *rng.pick(&["C%={}:PRINT C%", "PRINT CINT({})", "PRINT 1\\({})", "PRINT ({}) MOD 2", "DIM R(3):PRINT R({})", "PRINT 1 AND ({})"]);
            let text = f.replace("{}", e);
            // an array subscript may also say SUBSCRIPT OUT OF RANGE; everything else must be OVERFLOW
            let m = if f.starts_with("DIM") { Err(MErr::Any) } else { mv::err(Code::Overflow) };
            (text, m)
        } else if which < 6 {
            let (t, op) = forms[which];
            let b2 = if op == BinOp::Pow { (b as i32).rem_euclid(18) as i16 } else { b };
            (
                format!("A%={}:B%={}:PRINT A% {} B%", a, b2, t),
                mv::binop(op, &V::I(a), &V::I(b2)),
            )
        } else if which == 6 {
            (format!("A%={}:PRINT -A%", a), mv::unop(UnOp::Neg, &V::I(a)))
        } else if which == 7 {
            (
                format!("A%={}:PRINT ABS(A%)", a),
                if a == i16::MIN {
                    mv::err(Code::Overflow)
                } else {
                    Ok(V::I(a.wrapping_abs()))
                },
            )
        } else {
            // assignment conversion from a float expression
            let x = a as f64 + (rng.usize(33) as f64 - 16.0) / 16.0 + if rng.coin() { 0.0 } else { b as f64 };
            (
                format!("C%={:?}#:PRINT C%", x),
                mv::float_to_int(x).map(V::I),
            )
        };
        mon::journal(&text);
        let mut s = Session::new();
        s.drain(8);
        let mark = s.mark();
        let stop = s.command(&text, 64);
        let out = transcript(s.events_since(mark), Norm::STD);
        ctx.eval(&text, true);
        ctx.count("pipeline_statements");
        if stop != Stop::Stopped {
            ctx.violation(
                "no-stop",
                "pipeline:no-stop",
                &format!("{:?} did not return to the prompt: {:?}", text, stop),
                &text,
            );
            return;
        }
        let expect = match &model {
            Ok(V::I(n)) => format!("{}{} \nREADY.\n<STOPPED>", if *n < 0 { "-" } else { " " }, (*n as i32).abs()),
            Ok(_) => return,
            Err(MErr::Code(c)) => format!("?{}\nREADY.\n<STOPPED>", c.name()),
            Err(MErr::Any) => {
                if !out.starts_with('?') {
                    ctx.violation("pipeline-mismatch", &format!("pipeline:{}", which), &format!("{:?} printed {:?}, expected a BASIC error", text, out), &text);
                }
                return;
            }
            Err(_) => return,
        };
        if out != expect {
            ctx.violation(
                "pipeline-mismatch",
                &format!("pipeline:{}", which),
                &format!("{:?} printed {:?}, expected {:?}", text, out, expect),
                &text,
            );
        }
    }
}

impl Prop for C08 {
    fn cases(&self, tier: Tier) -> u64 {
        self.layout(tier).iter().sum()
    }

    fn rule(&self) -> &'static str {
        "Direct calls to Operation::{sum,subtract,multiply,divint,remainder,power,negate}, Function::{abs,cint}, \
         i16::try_from(Val) compared with exact i64 arithmetic: unary over all 65536 Integers; binary over a boundary \
         set squared (quick) and over all 2^32 pairs for + - * \\ MOD (thorough); floats stepping by 1/16 and by ulp \
         around the conversion limits; sampled pairs through PRINT/assignment in a real Runtime (variables, DEFINT, arrays, FOR/NEXT, NaN and \
         infinities, literals in every spelling under folded operators, variables retyped by DEFINT, failing \
         programs interrupted at a random instruction boundary and continued). Distinct: every \
         (operator, operands) tuple is enumerated once (counted by construction) or hashed (floats, pipeline). \
         Non-trivial: the exact result is an error or lies within 256 of a limit, an operand is -32768, a negative \
         divisor, any float conversion, any pipeline statement."
    }

    fn cpu_budget_s(&self) -> u64 {
        60
    }

    fn run_case(&mut self, idx: u64, rng: &mut Rng, ctx: &mut Ctx) {
        let l = self.layout(ctx.tier);
        let mut i = idx;
        if i < l[0] {
            return self.unary_chunk(ctx, i);
        }
        i -= l[0];
        if i < l[1] {
            let a = self.bset[i as usize];
            let by_constr = ctx.tier == Tier::Quick;
            let bset = self.bset.clone();
            return self.row(ctx, a, &mut bset.into_iter(), 6, by_constr);
        }
        i -= l[1];
        if i < l[2] {
            return self.float_case(ctx, i, rng);
        }
        i -= l[2];
        if i < l[3] {
            return self.pipeline_case(ctx, rng);
        }
        i -= l[3];
        // exhaustive: all right operands for left operand i-32768
        let a = (i as i64 - 32768) as i16;
        ctx.count("exhaustive_rows");
        self.row(
            ctx,
            a,
            &mut (0..65536u32).map(|u| (u as i64 - 32768) as i16),
            5,
            true,
        );
    }
}
