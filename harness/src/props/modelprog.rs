//! C01 / C09 / C10 — generated programs run on the real Runtime, compared event for event with
//! the source-level reference interpreter (gen::model_run). The three properties share the
//! oracle and differ in workload focus: control flow (+TRON), DATA/READ/RESTORE, DEF FN.

use crate::ctx::{Ctx, Tier};
use crate::drive::{run_fresh, Stop};
use crate::gen::{self, End, Opts};
use crate::mon;
use crate::rng::Rng;
use crate::Prop;

pub struct ModelProg {
    pub id: &'static str,
}

impl ModelProg {
    fn opts(&self, rng: &mut Rng) -> Opts {
        match self.id {
            "C09" => Opts { data: true, func: false, tron: false, stop: rng.coin(), max_lines: 40, input: rng.chance(1, 5), frac: rng.coin(), strings: rng.coin(), arrays: rng.coin() },
            "C10" => Opts { data: false, func: true, tron: false, stop: false, max_lines: 24, input: false, frac: rng.coin(), strings: rng.chance(1, 3), arrays: rng.coin() },
            _ => Opts {
                data: rng.chance(1, 5),
                func: false,
                tron: rng.chance(1, 4),
                stop: true,
                max_lines: 44,
                input: rng.chance(1, 3),
                frac: rng.coin(),
                strings: rng.chance(1, 3),
                arrays: rng.coin(),
            },
        }
    }
}

pub fn first_diff(a: &str, b: &str) -> String {
    let ac: Vec<char> = a.chars().collect();
    let bc: Vec<char> = b.chars().collect();
    let mut i = 0;
    while i < ac.len() && i < bc.len() && ac[i] == bc[i] {
        i += 1;
    }
    let from = i.saturating_sub(30);
    let sa: String = ac[from..(i + 30).min(ac.len())].iter().collect();
    let sb: String = bc[from..(i + 30).min(bc.len())].iter().collect();
    format!("first difference at char {}: …{:?} vs …{:?}", i, sa, sb)
}

/// The errors and binding rules C10 names, as fixed sessions: (lines typed, then expected transcript
/// of the last one; `*` in the expectation stands for any text without a line break).
const C10_CORPUS: [(&[&str], &str); 24] = [
    (&["10 DEF FNA(X)=X*2", "20 PRINT FNA(3)", "RUN", "DELETE 10", "PRINT FNA(3)"], "?UNDEFINED USER FUNCTION\nREADY.\n<STOPPED>"),
    (&["10 DEF FNA(X)=X*2", "20 PRINT FNA(3)", "RUN", "RENUM", "PRINT FNA(3)"], "?UNDEFINED USER FUNCTION\nREADY.\n<STOPPED>"),
    (&["10 N=4", "20 DEF FNM$(S$,N)=MID$(S$,N,1)", "30 PRINT FNM$(\"HELLO\",2)", "RUN"], "E\nREADY.\n<STOPPED>"),
    (&["DEF FNA(X)=X"], "?ILLEGAL DIRECT\nREADY.\n<STOPPED>"),
    (&["10 PRINT FNA(1)", "RUN"], "?UNDEFINED USER FUNCTION IN 10\nREADY.\n<STOPPED>"),
    (&["10 DEF FNA(X)=X", "20 PRINT FNA(1,2)", "RUN"], "?ILLEGAL FUNCTION CALL IN 20\nREADY.\n<STOPPED>"),
    (&["10 DEF FNA(X,Y)=X+Y", "20 PRINT FNA(1)", "RUN"], "?ILLEGAL FUNCTION CALL IN 20\nREADY.\n<STOPPED>"),
    (&["10 DEF FNA(X)=FNA(X+1)", "20 PRINT FNA(1)", "RUN"], "?OUT OF MEMORY IN *\nREADY.\n<STOPPED>"),
    (&["10 DEF FNA(X)=FNB(X)+1", "15 DEF FNB(X)=FNA(X)+1", "20 PRINT FNA(1)", "RUN", "PRINT 7*6"], " 42 \nREADY.\n<STOPPED>"),
    (&["10 X=5:DEF FNA(X)=X*2", "20 PRINT FNA(3);X", "RUN"], " 6  5 \nREADY.\n<STOPPED>"),
    (&["10 DEF FNA(X)=X+Y", "20 Y=1:PRINT FNA(1);:Y=10:PRINT FNA(1)", "RUN"], " 2  11 \nREADY.\n<STOPPED>"),
    (&["10 DEF FNA(X)=X+1", "20 PRINT FNA(FNA(FNA(FNA(FNA(FNA(FNA(FNA(0))))))))", "RUN"], " 8 \nREADY.\n<STOPPED>"),
    (&["10 DEF FNA$(X$)=X$+\"!\"", "20 DIM Q(5):Q(2)=7:PRINT FNA$(\"HI\");Q(LEN(FNA$(\"A\")))", "RUN"], "HI! 7 \nREADY.\n<STOPPED>"),
    (&["10 DEF FNA(X)=X*X", "20 DEF FNB(X,Y)=FNA(X)+FNA(Y)", "30 FOR I=FNA(1) TO FNB(1,1):PRINT I;:NEXT", "RUN"], " 1  2 \nREADY.\n<STOPPED>"),
    (&["10 DEF FNA(X)=X+1", "20 PRINT FNA(1)", "RUN", "PRINT FNA(5)"], " 6 \nREADY.\n<STOPPED>"),
    (&["10 DEF FNA(X)=X+1", "20 PRINT FNA(1)", "RUN", "CLEAR", "PRINT FNA(5)"], "?UNDEFINED USER FUNCTION\nREADY.\n<STOPPED>"),
    (&["10 A=1:B=2", "20 DEF FNS(A,B)=A*10+B", "30 PRINT FNS(B,A);A;B", "RUN"], " 21  1  2 \nREADY.\n<STOPPED>"),
    (&["IF 1 THEN DEF FNA(X)=X*2"], "?ILLEGAL DIRECT\nREADY.\n<STOPPED>"),
    (&["IF 0 THEN PRINT 1 ELSE DEF FNA(X)=X*2"], "?ILLEGAL DIRECT\nREADY.\n<STOPPED>"),
    (&["10 DEF FNA(X)=X+1", "20 PRINT FNA(1)", "RUN", "IF 1 THEN DEF FNA(X)=X*100", "PRINT FNA(1)"], " 2 \nREADY.\n<STOPPED>"),
    (&["10 V#=7:W%=3:S$=\"KEEP\"", "20 DEF FNH#(V#,W%,S$)=V#*2+W%+LEN(S$)", "30 PRINT FNH#(5,1,\"AB\");V#;W%;S$", "RUN"], " 13  7  3 KEEP\nREADY.\n<STOPPED>"),
    (&["10 DEF FNI#(N#)=N#+1", "20 DEF FNO#(N#)=FNI#(N#*10)+N#", "30 PRINT FNO#(2)", "RUN"], " 23 \nREADY.\n<STOPPED>"),
    // functions whose names differ only in the type character are different functions with parameters of their own
    (&["10 DEF FNA$(N)=STRING$(N,\"*\")", "20 DEF FNA(N)=LEN(FNA$(N+2))+N", "30 PRINT FNA(3)", "RUN"], " 8 \nREADY.\n<STOPPED>"),
    (&["10 DEF FNA%(N)=N*2", "20 DEF FNA#(N)=FNA%(N+1)+N", "30 PRINT FNA#(4);FNA%(1)", "RUN"], " 14  2 \nREADY.\n<STOPPED>"),
];

/// READ converts each constant to the receiving variable's type exactly as an assignment would: the same program
/// once with DATA + READ and once with assignments must print the same, errors included.
fn c09_typed_read_case(rng: &mut Rng, ctx: &mut Ctx) {
    const CONSTS: [&str; 26] = [
        "0", "1", "-1", "1.5", "-2.5", "2.99999", "32767", "32768", "-32768", "-32769", "40000", "1E10", "-1E10", "1E38", "1D300",
        "123456789", "1.23456789012345", "0.1", "&H7FFF", "&17", "\"text\"", "\"a,b\"", "\"\"", "\" pad \"", "\"12\"", "3.4E38",
    ];
    const TARGETS: [&str; 9] = ["A%", "B!", "C#", "D", "E$", "F%(2)", "G#(1,1)", "H$(3)", "K(0)"];
    let n = rng.range(1, 4) as usize;
    let ts: Vec<&str> = (0..n).map(|_| *rng.pick(&TARGETS)).collect();
    let cs: Vec<&str> = (0..n).map(|_| *rng.pick(&CONSTS)).collect();
    let show = format!("PRINT {}", ts.iter().map(|t| format!("\"[\";{};\"]\"", t)).collect::<Vec<_>>().join(";"));
    let with_read = vec![format!("10 DATA {}", cs.join(",")), format!("20 READ {}", ts.join(",")), format!("30 {}", show)];
    let with_let = vec![
        "10 REM".to_string(),
        format!("20 {}", ts.iter().zip(cs.iter()).map(|(t, c)| format!("{}={}", t, c)).collect::<Vec<_>>().join(":")),
        format!("30 {}", show),
    ];
    let text = format!("{}\n--- as assignments ---\n{}", with_read.join("\n"), with_let.join("\n"));
    mon::journal(&text);
    let run = |lines: &[String]| -> (String, String) {
        let mut s = crate::drive::Session::new();
        s.drain(16);
        for l in lines {
            s.command(l, 16);
        }
        let mark = s.mark();
        s.command("RUN", 400);
        // which of the statement's variables were stored before an error stopped it is part of the comparison
        let m2 = s.mark();
        s.command(&show, 64);
        (crate::drive::transcript(&s.log[mark..m2], crate::drive::Norm::STD), crate::drive::transcript(s.events_since(m2), crate::drive::Norm::STD))
    };
    let (a, a2) = run(&with_read);
    let (b, b2) = run(&with_let);
    ctx.eval(&text, true);
    ctx.count("typed_read_programs");
    if a != b || a2 != b2 {
        ctx.violation(
            "read-conversion",
            "read:conversion",
            &format!("READ gives {:?} then {:?}; the same values assigned give {:?} then {:?}", a, a2, b, b2),
            &text,
        );
    }
}

fn c10_corpus_case(i: usize, ctx: &mut Ctx) {
    let (script, want) = C10_CORPUS[i];
    let text = script.join("\n");
    mon::journal(&text);
    let mut s = crate::drive::Session::new();
    s.drain(16);
    let mut got = String::new();
    for l in script.iter() {
        let mark = s.mark();
        s.enter(l);
        if s.drain(400) != Stop::Stopped {
            ctx.violation("no-stop", "corpus:no-stop", &format!("{:?} did not return to the prompt", l), &text);
            return;
        }
        got = crate::drive::transcript(s.events_since(mark), crate::drive::Norm::STD);
    }
    ctx.evals += 1;
    ctx.distinct_by_construction += 1;
    ctx.count("corpus_sessions");
    let ok = match want.find('*') {
        Some(k) => got.starts_with(&want[..k]) && got.ends_with(&want[k + 1..]) && !got[k..got.len() - (want.len() - k - 1)].contains('\n'),
        None => got == want,
    };
    if !ok {
        ctx.violation(
            "corpus",
            &format!("corpus:{}", i),
            &format!("the session ends with {:?}; documented behaviour {:?}", got, want),
            &text,
        );
    }
}

/// Does this program still make implementation and model disagree? (None = the model does not
/// specify it, or they agree.)
fn disagree(p: &gen::Prog) -> Option<(String, String)> {
    let m = gen::model_run(p, 20_000);
    if let End::Unspec(_) = m.end {
        return None;
    }
    let lines = gen::render(p);
    let r = run_fresh(&lines, &["RUN".to_string()], &p.replies, 5000, 20_000);
    if r.stop == Stop::Budget || r.transcript == m.out {
        return None;
    }
    Some((r.transcript, m.out))
}

/// Greedy witness shrinking: replace a line by a bare REM (labels stay, so references still link), drop
/// single statements of multi-statement lines; keep a step whenever the two still disagree.
fn shrink(p: &gen::Prog, impl_out: &str, model_out: &str) -> (gen::Prog, String, String) {
    let mut best = p.clone();
    let mut outs = (impl_out.to_string(), model_out.to_string());
    let mut budget = 400;
    let mut progress = true;
    while progress && budget > 0 {
        progress = false;
        for li in (0..best.lines.len()).rev() {
            if budget == 0 {
                break;
            }
            if matches!(best.lines[li].sts.first(), Some(gen::St::Rem(..))) && best.lines[li].sts.len() == 1 {
                continue;
            }
            budget -= 1;
            let mut q = best.clone();
            q.lines[li].sts = vec![gen::St::Rem(String::new(), false)];
            if let Some(o) = disagree(&q) {
                best = q;
                outs = o;
                progress = true;
                continue;
            }
            let n = best.lines[li].sts.len();
            if n >= 2 {
                for si in (0..n).rev() {
                    if budget == 0 {
                        break;
                    }
                    budget -= 1;
                    let mut q = best.clone();
                    q.lines[li].sts.remove(si);
                    if let Some(o) = disagree(&q) {
                        best = q;
                        outs = o;
                        progress = true;
                        break;
                    }
                }
            }
        }
    }
    (best, outs.0, outs.1)
}

impl Prop for ModelProg {
    fn cases(&self, tier: Tier) -> u64 {
        match tier {
            Tier::Quick => 400_000,
            Tier::Thorough => 4_000_000,
        }
    }

    fn rule(&self) -> &'static str {
        "Random structured programs (nested FOR/NEXT with early exits, WHILE/WEND, GOSUB/RETURN incl. RETURN from \
         inside loops, ON..GOTO/GOSUB incl. 0, negative and out-of-range selectors, IF/ELSE incl. nested, END/STOP, \
         multi-statement lines, REM lines; C01 adds TRON; C09 adds DATA/READ/RESTORE [n] anywhere; C10 adds DEF FN \
         with 0..3 parameters shadowing program variables and calling earlier functions). Each is typed into a \
         fresh Runtime and RUN; the complete transcript (prints, error name+line, READY, stop event) must equal \
         the output of the statement-by-statement reference interpreter. Runs the model leaves unspecified are \
         discarded. Distinct = hash of program text; non-trivial = the model executed >= 8 statements of >= 4 kinds \
         (C09: at least one READ; C10: at least one DEF)."
    }

    fn run_case(&mut self, _idx: u64, rng: &mut Rng, ctx: &mut Ctx) {
        if self.id == "C10" && (_idx as usize) < C10_CORPUS.len() {
            return c10_corpus_case(_idx as usize, ctx);
        }
        if self.id == "C09" && _idx % 16 == 5 {
            return c09_typed_read_case(rng, ctx);
        }
        let o = self.opts(rng);
        let mut p = gen::generate(rng, o);
        if rng.chance(1, 12) && !p.lines.is_empty() {
            // numbered up to the largest line number there is: its messages name it like any other line
            let step = *rng.pick(&[1u16, 2, 5, 10]);
            let n = p.lines.len() as u32;
            if (n - 1) * (step as u32) < 60_000 {
                p.number((65_529 - (n - 1) * step as u32) as u16, step);
            }
        }
        let lines = gen::render(&p);
        let text = lines.join("\n");
        mon::journal(&text);
        let m = gen::model_run(&p, 20_000);
        if let End::Unspec(why) = m.end {
            ctx.count(&format!("discarded_unspecified_{}", why));
            ctx.evals += 1;
            return;
        }
        // C09: a DATA statement typed at the prompt is refused and must not add constants to the program's
        let direct_data = self.id == "C09" && rng.chance(1, 4);
        let mut r = if direct_data {
            run_fresh(&lines, &["DATA 77,88".to_string(), "RUN".to_string()], &p.replies, 5000, 100_000)
        } else {
            run_fresh(&lines, &["RUN".to_string()], &p.replies, 5000, 100_000)
        };
        if direct_data {
            ctx.count("runs_after_a_refused_direct_DATA");
            let refused = "?ILLEGAL DIRECT\nREADY.\n<STOPPED>";
            match r.transcript.strip_prefix(refused) {
                Some(rest) => r.transcript = rest.to_string(),
                None => {
                    ctx.violation("direct-data", "direct-data-accepted", &format!("DATA 77,88 typed at the prompt gave {:?}", r.transcript), &text);
                    return;
                }
            }
        }
        if r.stop == Stop::Budget {
            ctx.violation("no-stop", "no-stop", "program the model finishes did not stop within 100,000 execute calls", &text);
            return;
        }
        let need = match self.id {
            "C09" => m.kinds.contains(&"READ"),
            "C10" => m.kinds.contains(&"DEF"),
            _ => true,
        };
        ctx.eval(&text, need && m.steps >= 8 && m.kinds.len() >= 4);
        for k in &m.kinds {
            ctx.cover("model_statement_kinds", k);
        }
        ctx.cover(
            "terminations",
            match &m.end {
                End::Normal => "END",
                End::Break(_) => "STOP",
                End::Error(n, _) => n,
                End::Unspec(_) => "",
            },
        );
        ctx.add("model_statements_executed", m.steps);
        ctx.add("events_observed", r.events.len() as u64);
        ctx.max("max_control_stack_depth", m.max_depth as u64);
        if ctx.want_sample() && m.steps > 15 {
            ctx.sample(&format!("{}\n--> {:?}", text, m.out));
        }
        if r.transcript != m.out {
            let kind = if o.tron && r.transcript.replace(|c: char| c == '[' || c == ']' || c.is_ascii_digit(), "")
                == m.out.replace(|c: char| c == '[' || c == ']' || c.is_ascii_digit(), "")
            {
                "trace"
            } else {
                "transcript"
            };
            // shrink: blank out lines / drop statements while the two still disagree
            let (sp, sr, sm) = shrink(&p, &r.transcript, &m.out);
            let stext = gen::render(&sp).join("\n");
            // name the last statement kind the model ran, for deduplication
            ctx.violation(
                kind,
                &format!("{}:{:?}", kind, m.end).chars().filter(|c| !c.is_ascii_digit()).collect::<String>(),
                &format!(
                    "implementation and reference interpreter disagree; {}\nimpl : {:?}\nmodel: {:?}\n--- shrunk witness ({} of {} lines with code) ---\n{}\nimpl : {:?}\nmodel: {:?}",
                    first_diff(&r.transcript, &m.out),
                    r.transcript,
                    m.out,
                    sp.lines.iter().filter(|l| !matches!(l.sts.first(), Some(gen::St::Rem(..)) | None)).count(),
                    p.lines.len(),
                    stext,
                    sr,
                    sm
                ),
                &text,
            );
            return;
        }
        // C09: RESTORE n typed at the prompt (the program has not run): the next READ gets the first constant at or
        // after line n, wherever that line is -- the last line, line 65529, a line without DATA
        if self.id == "C09" && rng.chance(1, 4) && !p.lines.is_empty() {
            fn collect(sts: &[gen::St], li: usize, out: &mut Vec<(usize, gen::Datum)>) {
                for s in sts {
                    match s {
                        gen::St::Data(ns) => out.extend(ns.iter().map(|n| (li, n.clone()))),
                        gen::St::If(_, t, e) => {
                            collect(t, li, out);
                            if let Some(e) = e {
                                collect(e, li, out);
                            }
                        }
                        _ => {}
                    }
                }
            }
            let mut data = vec![];
            for (li, l) in p.lines.iter().enumerate() {
                collect(&l.sts, li, &mut data);
            }
            let li = if rng.chance(1, 3) { p.lines.len() - 1 } else { rng.usize(p.lines.len()) };
            let n = p.num(p.lines[li].label);
            let want = match data.iter().find(|(k, _)| *k >= li) {
                None => "?OUT OF DATA\nREADY.\n<STOPPED>".to_string(),
                Some((_, gen::Datum::S(_))) => "?TYPE MISMATCH\nREADY.\n<STOPPED>".to_string(),
                Some((_, gen::Datum::N(v))) => format!("{}{} \nREADY.\n<STOPPED>", if *v < 0 { "-" } else { " " }, v.abs()),
            };
            let c = format!("RESTORE {}:READ Z9:PRINT Z9", n);
            let mut s = crate::drive::Session::new();
            s.drain(16);
            for l in &lines {
                s.command(l, 16);
            }
            let mark = s.mark();
            s.command(&c, 64);
            let got = crate::drive::transcript(s.events_since(mark), crate::drive::Norm::STD);
            ctx.count("direct_restore_n_probes");
            if got != want {
                ctx.violation(
                    "direct-restore",
                    "direct-restore-n",
                    &format!("{:?} typed at the prompt gave {:?}; the first constant at or after line {} makes it {:?}", c, got, n, want),
                    &format!("{}\n{}", text, c),
                );
                return;
            }
        }
        // a session of several commands on the same machine: TRON typed at the prompt, RUN n into the
        // middle of the program, GOTO n in direct mode (no CLEAR: variables and open frames stay)
        if self.id != "C10" && _idx % 3 == 0 {
            let labels: Vec<usize> = p.lines.iter().map(|l| l.label).collect();
            let mut cmds: Vec<gen::Cmd> = vec![];
            if rng.chance(1, 3) {
                cmds.push(gen::Cmd::Tron);
            }
            cmds.push(if rng.coin() { gen::Cmd::Run(None) } else { gen::Cmd::Run(Some(*rng.pick(&labels))) });
            // CONT behind a STOP / END (the model ends the session where CONT is not specified)
            for _ in 0..rng.range(0, 2) {
                cmds.push(gen::Cmd::Cont);
            }
            if rng.coin() {
                // often the line the run most likely ended in (with TRON on it was the last one announced)
                let end_line = p.lines.iter().find(|l| l.sts.iter().any(|s| matches!(s, gen::St::End | gen::St::Stop))).map(|l| l.label);
                let target = match end_line {
                    Some(l) if rng.coin() => l,
                    _ => *rng.pick(&labels),
                };
                cmds.push(gen::Cmd::Goto(target));
                if rng.coin() {
                    cmds.push(gen::Cmd::Cont);
                }
            }
            // the same command again without an edit in between (what the trace remembers must not leak)
            if rng.chance(1, 3) {
                cmds.push(gen::Cmd::Run(None));
            }
            if rng.chance(1, 3) {
                cmds.push(gen::Cmd::Troff);
                cmds.push(gen::Cmd::Run(Some(*rng.pick(&labels))));
            }
            let ms = gen::model_session(&p, &cmds, 20_000);
            let mut s = crate::drive::Session::new();
            s.drain(16);
            for l in &lines {
                s.enter(l);
                s.drain(16);
            }
            let mut used = 0usize;
            let mut script = text.clone();
            for (c, m) in cmds.iter().zip(ms.iter()) {
                if let End::Unspec(why) = m.end {
                    ctx.count(&format!("session_discarded_unspecified_{}", why));
                    break;
                }
                let ct = c.text(&p);
                script.push('\n');
                script.push_str(&ct);
                mon::journal(&script);
                let mark = s.mark();
                s.enter(&ct);
                let st = crate::drive::drain_with_replies(&mut s, &p.replies, &mut used, 100_000);
                let got = crate::drive::transcript(s.events_since(mark), crate::drive::Norm::STD);
                ctx.count("session_commands_compared");
                ctx.cover("session_command_kinds", ct.split(' ').next().unwrap_or(""));
                if st == Stop::Budget || got != m.out {
                    ctx.violation(
                        "session",
                        &format!("session:{}:{:?}", ct.split(' ').next().unwrap_or(""), m.end).chars().filter(|c| !c.is_ascii_digit()).collect::<String>(),
                        &format!(
                            "after {:?} the implementation and the reference interpreter disagree; {}\nimpl : {:?}\nmodel: {:?}",
                            ct,
                            first_diff(&got, &m.out),
                            got,
                            m.out
                        ),
                        &script,
                    );
                    return;
                }
                // after an error expression temporaries may be left on the real stack: stop here
                if matches!(m.end, End::Error(..)) {
                    break;
                }
            }
        }
    }
}
