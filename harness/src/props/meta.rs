//! Metamorphic (implementation-vs-itself) monitors: C04, C12, C13, C16, C20.
//! Each runs the same generated program through two different routes that the property says
//! are equivalent and compares the complete event transcripts.

use crate::ctx::{Ctx, Tier};
use crate::drive::{drain_with_replies, transcript, Norm, Session, Stop};
use crate::gen::{self, Opts, Prog};
use crate::mon;
use crate::props::modelprog::first_diff;
use crate::rng::Rng;
use crate::Prop;

pub struct Meta {
    pub id: &'static str,
}

// 4,000 slices of 5,000 instructions: enough for every terminating generated program; a run that
// needs more is discarded (never judged), and stays far below the CPU watchdog
const CALLS: u64 = 4_000;

fn typed(lines: &[String]) -> Session {
    let mut s = Session::new();
    s.drain(16);
    for l in lines {
        s.enter(l);
        s.drain(16);
    }
    s
}

fn cmd(s: &mut Session, c: &str) -> (String, Stop) {
    let mark = s.mark();
    s.enter(c);
    let replies = s.auto_replies.clone();
    let mut used = s.auto_pos;
    let stop = drain_with_replies(s, &replies, &mut used, CALLS);
    s.auto_pos = used;
    (transcript(s.events_since(mark), Norm::STD), stop)
}

/// `cmd` with the reply script rewound, for the command whose transcript is compared.
fn cmd0(s: &mut Session, c: &str) -> (String, Stop) {
    s.auto_pos = 0;
    cmd(s, c)
}

fn typed_p(p: &Prog, lines: &[String]) -> Session {
    let mut s = typed(lines);
    s.auto_replies = p.replies.clone();
    s
}

fn gen_prog_in(rng: &mut Rng, stop: bool, input: bool) -> Prog {
    let o = Opts { data: rng.chance(1, 3), func: rng.chance(1, 4), tron: false, stop, max_lines: 36, input, frac: rng.coin(), strings: rng.chance(1, 3), arrays: rng.coin() };
    gen::generate(rng, o)
}

fn gen_prog(rng: &mut Rng, stop: bool) -> Prog {
    let input = rng.chance(1, 4);
    gen_prog_in(rng, stop, input)
}

/// "IN <number>" -> "IN <label>" so that runs of differently numbered layouts compare equal.
fn strip_line_numbers(t: &str) -> String {
    let mut out = String::new();
    let mut rest = t;
    while let Some(i) = rest.find(" IN ") {
        out.push_str(&rest[..i + 4]);
        rest = &rest[i + 4..];
        let d = rest.chars().take_while(|c| c.is_ascii_digit()).count();
        if d > 0 {
            out.push('#');
        }
        rest = &rest[d..];
    }
    out.push_str(rest);
    // trace markers: [123] -> [#]
    let mut t2 = String::new();
    let mut it = out.chars().peekable();
    while let Some(c) = it.next() {
        t2.push(c);
        if c == '[' {
            let mut digits = String::new();
            while let Some(d) = it.peek() {
                if d.is_ascii_digit() {
                    digits.push(*d);
                    it.next();
                } else {
                    break;
                }
            }
            if !digits.is_empty() && it.peek() == Some(&']') {
                t2.push('#');
            } else {
                t2.push_str(&digits);
            }
        }
    }
    t2
}

/// The order in which several compile-time diagnostics are reported is not part of any property.
fn sort_error_runs(t: &str) -> String {
    let mut out: Vec<String> = vec![];
    let mut run: Vec<String> = vec![];
    for l in t.split('\n') {
        if l.starts_with('?') {
            run.push(l.to_string());
        } else {
            run.sort();
            out.append(&mut run);
            out.push(l.to_string());
        }
    }
    run.sort();
    out.append(&mut run);
    out.join("\n")
}

/// Listing text with the optional blanks removed: outside string literals and remarks a blank (run)
/// survives, as one blank, only between two word characters.
fn squeeze_blanks(l: &str) -> String {
    let c: Vec<char> = l.chars().collect();
    let wordch = |ch: char| ch.is_ascii_alphanumeric() || matches!(ch, '$' | '%' | '!' | '#' | '.' | '&');
    let mut out = String::new();
    let mut in_str = false;
    let mut i = 0;
    while i < c.len() {
        let ch = c[i];
        if ch == '"' {
            in_str = !in_str;
        }
        if !in_str {
            let rest: String = c[i..].iter().take(4).collect::<String>().to_ascii_uppercase();
            let at_word = out.chars().last().map(|p| !p.is_ascii_alphabetic()).unwrap_or(true);
            if ch == '\'' || (at_word && rest.starts_with("REM") && !rest.chars().nth(3).map(|x| x.is_ascii_alphanumeric()).unwrap_or(false)) {
                out.extend(c[i..].iter());
                break;
            }
            if ch == ' ' {
                let mut j = i;
                while j < c.len() && c[j] == ' ' {
                    j += 1;
                }
                let prev = out.chars().last();
                let next = c.get(j).copied();
                if let (Some(p), Some(n)) = (prev, next) {
                    if wordch(p) && wordch(n) {
                        out.push(' ');
                    }
                }
                i = j;
                continue;
            }
        }
        out.push(ch);
        i += 1;
    }
    out
}

impl Meta {
    // ------------------------------------------------------------------ C16
    fn c16(&self, rng: &mut Rng, ctx: &mut Ctx) {
        let mut p = gen_prog(rng, true);
        // a first line whose output shows the precision of its literals: the case of an exponent letter is
        // spelling, the letter itself (E or D) is not
        if let Some(first) = p.lines.first().map(|l| p.num(l.label)) {
            if first > 0 {
                let label = 9_000_001usize;
                let third = |t: &'static str, v: f64, d: i64| gen::Item::E(gen::E::Bin(Box::new(gen::E::Lit(t, v)), "/", Box::new(gen::E::N(d))));
                p.lines.insert(0, gen::Line { label, sts: vec![gen::St::Print(vec![third("1D0", 1.0, 3), third("2E0", 2.0, 7), third("1D1", 10.0, 3), third("1.5D+1", 15.0, 7)], false)] });
                p.nums.insert(label, first - 1);
            }
        }
        let mut canon = gen::render(&p);
        let seed = rng.next_u64();
        let mut spelled = gen::render_spelled(&p, seed);
        // and a line with the operators that are words (IMP EQV AND OR MOD), once spaced, once run together
        if let Some(first) = p.lines.first().map(|l| p.num(l.label)) {
            if first > 0 && rng.coin() {
                canon.insert(0, format!("{} A=5:B=3:PRINT A IMP B;A EQV B;A AND B;A OR B;A MOD B:A=0:B=0", first - 1));
                spelled.insert(
                    0,
                    format!(
                        "{} {}",
                        first - 1,
                        rng.pick(&[
                            "a=5:b=3:printaimpb;aeqvb;aandb;aorb;amodb:a=0:b=0",
                            "A=5:B=3:PRINTAIMPB;AEQVB;AANDB;AORB;AMODB:A=0:B=0",
                            "A=5:B=3:?A imp B;A  EQV  B;A AND B;AORB;A mod B:A=0:B=0",
                        ])
                    ),
                );
            }
        }
        let text = format!("{}\n--- respelled as ---\n{}", canon.join("\n"), spelled.join("\n"));
        mon::journal(&text);
        let mut a = typed_p(&p, &canon);
        let mut b = typed_p(&p, &spelled);
        let differing = canon.iter().zip(spelled.iter()).filter(|(x, y)| x != y).count();
        ctx.eval(&text, differing >= 2);
        ctx.add("lines_respelled", differing as u64);
        if ctx.want_sample() && differing > 4 {
            ctx.sample(&text);
        }
        // the listing keeps the blanks the user typed between tokens (deliberately), so the two
        // listings are compared with blanks removed; everything else must be identical
        // ... but where two words meet (PRINT A, 7 MOD 3, GOTO 10, THEN PRINT) every spelling,
        // also the crunched one, must list with a blank between them: blanks are dropped only next
        // to punctuation and operators, and runs of blanks count as one
        let squeeze = |v: Vec<String>| -> Vec<String> { v.into_iter().map(|l| squeeze_blanks(&l)).collect() };
        let (la, lb) = (squeeze(a.listing_text()), squeeze(b.listing_text()));
        if la != lb {
            let i = la.iter().zip(lb.iter()).position(|(x, y)| x != y).unwrap_or(0);
            ctx.violation(
                "listing-differs",
                "spelling:listing",
                &format!(
                    "two spellings of one line list differently:\n typed {:?} lists {:?}\n typed {:?} lists {:?}",
                    canon.get(i),
                    la.get(i),
                    spelled.get(i),
                    lb.get(i)
                ),
                &text,
            );
            return;
        }
        let (ta, sa) = cmd(&mut a, "RUN");
        let (tb, sb) = cmd(&mut b, if rng.coin() { "run" } else { "RUN" });
        if sa == Stop::Budget || sb == Stop::Budget {
            ctx.count("discarded_budget");
            return;
        }
        ctx.add("events_compared", (a.log.len() + b.log.len()) as u64);
        if ta != tb {
            ctx.violation(
                "run-differs",
                "spelling:run",
                &format!("two spellings run differently; {}\ncanonical: {:?}\nrespelled: {:?}", first_diff(&ta, &tb), ta, tb),
                &text,
            );
        }
    }

    // ------------------------------------------------------------------ C20
    fn c20(&self, rng: &mut Rng, ctx: &mut Ctx) {
        let mut p = gen_prog(rng, true);
        // line 0 is a line like any other
        p.number(if rng.chance(1, 3) { 0 } else { rng.range(1, 9) as u16 }, 3);
        let base = gen::render(&p);
        let mut a = typed_p(&p, &base);
        let variant = rng.usize(3);
        // with the trace on, every line that runs is announced once -- under another numbering, and with
        // lines without code squeezed in between (not when lines are split, and only when no END has to be
        // appended: the closing END of a program that runs off its end is announced with the last line)
        let ends_itself = matches!(p.lines.last().map(|l| l.sts.last()), Some(Some(gen::St::Return)) | Some(Some(gen::St::End)));
        let trace = rng.coin() && (variant == 0 || (variant == 1 && ends_itself));
        if trace {
            cmd(&mut a, "TRON");
        }
        let (ta, sa) = cmd(&mut a, "RUN");
        if sa == Stop::Budget {
            ctx.count("discarded_budget");
            return;
        }
        let (lines, what): (Vec<String>, &str) = match variant {
            0 => {
                // other numbering
                let mut q = p.clone();
                let step = *rng.pick(&[1u16, 7, 10, 50]);
                let n = q.lines.len() as u32;
                if rng.chance(1, 5) && n > 0 && (n - 1) * (step as u32) < 60_000 {
                    // up to the largest line number
                    q.number((65_529 - (n - 1) * step as u32) as u16, step);
                } else {
                    q.number(if rng.chance(1, 4) { 0 } else { rng.range(0, 300) as u16 }, step);
                }
                let mut v = gen::render(&q);
                if !trace && rng.chance(1, 6) && q.lines.first().map(|l| q.num(l.label)).unwrap_or(0) > 30 {
                    // several thousand instructions in front of the program (lines 1..): every address in it moves
                    let filler: Vec<String> = (0..rng.range(9, 14)).map(|k| format!("{} Y9={}", k + 1, vec!["1"; 230].join("+"))).collect();
                    let mut w = filler;
                    w.append(&mut v);
                    v = w;
                }
                (v, "renumbered-layout")
            }
            1 => {
                // remark lines, empty statements and unreachable code in the gaps
                let mut v = vec![];
                for (l, text) in p.lines.iter().zip(base.iter()) {
                    let n = p.num(l.label);
                    if rng.chance(1, 3) && n > 0 {
                        // a line just before: executed on fall-through, so it must be a no-op
                        v.push(format!("{} {}", n - 1, rng.pick(&["REM", "'pad", ":", "::", "REM GOTO 1"])));
                    }
                    // an empty statement in front of ELSE changes nothing either (not behind a bare line number,
                    // where `THEN 100: ELSE ..` is read differently)
                    let mut text = text.clone();
                    if rng.chance(1, 3) && !text.contains('"') {
                        if let Some(i) = text.find(" ELSE ") {
                            if !text[..i].ends_with(|c: char| c.is_ascii_digit()) {
                                text = format!("{}{} ELSE {}", &text[..i], rng.pick(&[":", " :", "::"]), &text[i + 6..]);
                            }
                        }
                    }
                    v.push(text);
                }
                // unreachable lines after the end of everything
                let last = p.lines.last().map(|l| p.num(l.label)).unwrap_or(0);
                if !matches!(p.lines.last().map(|l| l.sts.last()), Some(Some(gen::St::Return)) | Some(Some(gen::St::End))) {
                    v.push(format!("{} END", last + 1));
                }
                v.push(format!("{} PRINT \"UNREACHABLE\":GOTO {}", last + 2, last + 2));
                v.push(format!("{} REM DATA 1,2,3", last + 3));
                (v, "padding-lines")
            }
            _ => {
                // split multi-statement lines where no IF / FOR-resume / REM scoping is involved
                let mut v = vec![];
                for l in p.lines.iter() {
                    let n = p.num(l.label);
                    let splittable = l.sts.len() >= 2
                        && !l.sts.iter().any(|s| matches!(s, gen::St::If(..) | gen::St::Rem(..)));
                    if splittable {
                        let mut r = gen::Render::new(&p, gen::Spell::default());
                        let k = 1 + rng.usize(l.sts.len() - 1);
                        let first: Vec<String> = l.sts[..k].iter().map(|s| r.st(s)).collect();
                        let second: Vec<String> = l.sts[k..].iter().map(|s| r.st(s)).collect();
                        v.push(format!("{} {}", n, first.join(":")));
                        v.push(format!("{} {}", n + 1, second.join(":")));
                    } else {
                        let mut r = gen::Render::new(&p, gen::Spell::default());
                        v.push(r.line(l));
                    }
                }
                (v, "split-lines")
            }
        };
        let text = format!("{}\n--- {} ---\n{}", base.join("\n"), what, lines.join("\n"));
        mon::journal(&text);
        let mut b = typed_p(&p, &lines);
        if trace {
            cmd(&mut b, "TRON");
            ctx.count("traced_layout_pairs");
        }
        let (tb, sb) = cmd(&mut b, "RUN");
        if sb == Stop::Budget {
            ctx.violation("no-stop", "layout:no-stop", "re-laid-out program does not stop", &text);
            return;
        }
        ctx.eval(&text, lines != base && ta.len() > 40);
        ctx.cover("layout_transformations", what);
        ctx.add("events_compared", (a.log.len() + b.log.len()) as u64);
        if ctx.want_sample() && ta.len() > 60 {
            ctx.sample(&text);
        }
        if strip_line_numbers(&ta) != strip_line_numbers(&tb) {
            ctx.violation(
                "layout-differs",
                &format!("layout:{}", what),
                &format!("{}; base: {:?}\nvariant: {:?}", first_diff(&strip_line_numbers(&ta), &strip_line_numbers(&tb)), ta, tb),
                &text,
            );
            return;
        }
        // direct statement with a smaller / larger program in memory
        let d = {
            let mut g = gen::Render::new(&p, gen::Spell::default());
            let sts: Vec<String> = p
                .lines
                .iter()
                .flat_map(|l| l.sts.iter())
                .filter(|s| matches!(s, gen::St::Print(..) | gen::St::Let(..)))
                .take(4)
                .map(|s| g.st(s))
                .collect();
            format!("FOR I=1 TO 3:{}:NEXT:PRINT I;\"done\"", sts.join(":"))
        };
        let d = if p.lines.iter().any(|l| l.sts.iter().any(|s| matches!(s, gen::St::Def(..)))) {
            "FOR I=1 TO 3:PRINT I*2;:NEXT:PRINT I".to_string()
        } else {
            d
        };
        let mut empty = typed(&[]);
        let mut full = typed(&base);
        let (t0, _) = cmd(&mut empty, &d);
        let (t1, _) = cmd(&mut full, &d);
        ctx.count("direct_statements_compared");
        if t0 != t1 {
            ctx.violation(
                "direct-depends-on-program",
                "layout:direct",
                &format!("direct statement {:?} prints {:?} with no program and {:?} with the program loaded", d, t0, t1),
                &format!("{}\n{}", base.join("\n"), d),
            );
            return;
        }
        // a direct list whose last statement is a conditional END (taken or not) ends like the one-line program
        {
            let x = rng.range(0, 1);
            let dl = match rng.usize(3) {
                0 => format!("X={}:PRINT \"A\":IF X THEN END", x),
                1 => format!("X={}:IF X THEN PRINT \"T\" ELSE END", x),
                _ => format!("X={}:PRINT \"A\";:IF X THEN PRINT \"B\":END", x),
            };
            let (td, _) = cmd(&mut full, &dl);
            let mut one = typed(&[format!("10 {}", dl)]);
            let (tl, _) = cmd(&mut one, "RUN");
            ctx.count("direct_lists_ending_in_a_conditional_END");
            if td != tl {
                ctx.violation(
                    "direct-vs-line",
                    "layout:direct-conditional-end",
                    &format!("{:?} gives {:?} in direct mode and {:?} as line 10", dl, td, tl),
                    &format!("{}\n{}", base.join("\n"), dl),
                );
                return;
            }
        }
        // lines that compile to nothing do nothing in direct mode either, with and without a program
        let nothing = *rng.pick(&["REM x", "'x", ":", ": :REM X", "::", "REM", " :' GOTO 1"]);
        for (which, sess) in [("no program", &mut empty), ("the program loaded", &mut full)] {
            let (t, _) = cmd(sess, nothing);
            ctx.count("empty_direct_lines_run");
            if t != "READY.\n<STOPPED>" && t != "<STOPPED>" {
                ctx.violation(
                    "empty-direct-line",
                    "layout:empty-direct",
                    &format!("the direct line {:?} (no statements) with {} gives {:?}; the one-line program `10 {}` prints nothing", nothing, which, t, nothing),
                    &format!("{}\n{}", base.join("\n"), nothing),
                );
                return;
            }
        }
        // the same list as a one-line program
        let mut one = typed(&[format!("10 {}", d)]);
        let (t2, _) = cmd(&mut one, "RUN");
        if strip_line_numbers(&t0).replace(" IN #", "") != strip_line_numbers(&t2).replace(" IN #", "") {
            ctx.violation(
                "direct-vs-line",
                "layout:direct-vs-line",
                &format!("{:?} prints {:?} in direct mode and {:?} as line 10", d, t0, t2),
                &d,
            );
        }
    }

    // ------------------------------------------------------------------ C12
    /// A program that seeds the generator itself (RND(-k)) gets the same numbers whatever the session did
    /// before: the seed replaces all of the generator's state.
    fn c12_rnd(&self, rng: &mut Rng, ctx: &mut Ctx) {
        let mut a = Session::new();
        a.drain(16);
        let mut b = Session::new();
        b.drain(16);
        let mut script: Vec<String> = vec![];
        for pre in ["PRINT RND(1);RND(1)", "10 PRINT RND(1)", "RUN", "CLEAR", "RUN"].iter().take(1 + rng.usize(5)) {
            script.push(format!("(second session only) {}", pre));
            cmd(&mut b, pre);
        }
        for _ in 0..12 {
            let k = match rng.usize(3) {
                0 => rng.range(1, 32767),
                1 => rng.range(1, 16_000_000),
                _ => rng.range(1, 70_000),
            };
            let st = format!("X=RND(-{}):PRINT RND(1);RND(1);RND(0)", k);
            script.push(st.clone());
            let (ta, _) = cmd(&mut a, &st);
            // the other session draws a few numbers in between
            if rng.coin() {
                cmd(&mut b, "Y=RND(1)+RND(1)");
            }
            let (tb, _) = cmd(&mut b, &st);
            ctx.count("rnd_seeds_compared");
            if ta != tb {
                ctx.violation(
                    "run-depends-on-history",
                    "reset:rnd-seed",
                    &format!("{:?} prints {:?} in a fresh interpreter and {:?} after other draws", st, ta, tb),
                    &script.join("\n"),
                );
                return;
            }
        }
        ctx.eval(&script.join("\n"), true);
    }

    fn c12(&self, rng: &mut Rng, ctx: &mut Ctx) {
        if rng.chance(1, 25) {
            return self.c12_rnd(rng, ctx);
        }
        let p1 = gen_prog(rng, true);
        let p2 = if rng.chance(1, 3) { p1.clone() } else { gen_prog(rng, true) };
        let l1 = gen::render(&p1);
        let l2 = gen::render(&p2);
        let directs = [
            "A=7:B=-3:C=11:D=5:P=2",
            "DEFINT A-C",
            "DEFSTR P-Q",
            "DEFDBL D",
            "DEFINT T-Z",
            "DEFDBL Z",
            "DEFSTR A-Z",
            "DEFSNG A:DEFINT Y-Z:Z=4.5",
            // statements that fail half way: a bad second subscript, a constant that does not fit its variable
            "DIM ZY(3,3):ZY(1,-1)=5",
            "PRINT ZX(1,40000)",
            "DIM ZW(2,2,2):ZW(1,1,X1-1)=2",
            "READ Q$",
            "READ A%,Q$,B%",
            "DIM A(3),ZZ(2,2)",
            "A(2)=5",
            "DEF FNA(X)=X+100",
            "FOR I=1 TO 2:FOR J=1 TO 2",
            "GOSUB 1",
            "READ A,B",
            "RESTORE",
            "X1=1/0",
            "PRINT 1;",
            "TRON:TROFF",
            "I=99:W1=50",
            "STOP",
        ];
        let mut script: Vec<String> = vec![];
        let mut s = typed_p(&p1, &l1);
        script.extend(l1.iter().cloned());
        let n = rng.range(1, 5);
        for _ in 0..n {
            if rng.chance(1, 6) {
                // a run that is interrupted somewhere in the middle
                let slices = rng.range(1, 40);
                script.push(format!("RUN  (interrupted after {} slices of 17 instructions)", slices));
                s.enter("RUN");
                let mut used = s.auto_pos;
                let replies = s.auto_replies.clone();
                for _ in 0..slices {
                    match s.step_q(17) {
                        Some(Stop::Stopped) => break,
                        Some(Stop::Input(..)) => {
                            if used < replies.len() {
                                s.enter(&replies[used]);
                                used += 1;
                            } else {
                                break;
                            }
                        }
                        Some(Stop::Inkey) => {
                            s.enter("");
                        }
                        _ => {}
                    }
                }
                s.auto_pos = used;
                s.interrupt();
                if s.drain(64) != Stop::Stopped {
                    ctx.violation("interrupt-ignored", "reset:interrupt-no-stop", "an interrupted run did not stop", &script.join("\n"));
                    return;
                }
                ctx.count("prefix_runs_interrupted");
                continue;
            }
            let c = if rng.chance(1, 3) { "RUN".to_string() } else { rng.pick(&directs).to_string() };
            script.push(c.clone());
            let (_, st) = cmd(&mut s, &c);
            if st == Stop::Budget {
                ctx.count("discarded_budget");
                return;
            }
        }
        // replace the program: NEW, then type p2
        let use_new = rng.coin();
        if use_new || l1 != l2 {
            script.push("NEW".into());
            // (the front end may still hold a snapshot of the listing, e.g. for its line editor)
            let held = if rng.coin() { Some(s.rt.get_listing()) } else { None };
            cmd(&mut s, "NEW");
            drop(held);
            if !s.listing_text().is_empty() {
                ctx.violation("new-keeps-lines", "reset:new-listing", "NEW left lines in the listing", &script.join("\n"));
                return;
            }
            {
                // NEW is CLEAR plus an empty listing: the probe must show the start-up state
                let pr = s.rt.verif_probe();
                let fresh = Session::new().rt.verif_probe();
                ctx.count("new_probes");
                if !pr.vars.is_empty() || !pr.dims.is_empty() || pr.types != fresh.types || !pr.functions.is_empty() || !pr.stack.is_empty()
                    || pr.data_pos != 0 || pr.cont != "Stopped" || pr.tron
                {
                    ctx.violation(
                        "new-incomplete",
                        "reset:new",
                        &format!(
                            "after NEW: vars={:?} dims={:?} types_default={} functions={:?} stack={:?} data_pos={} cont={} tron={}",
                            pr.vars, pr.dims, pr.types == fresh.types, pr.functions, pr.stack, pr.data_pos, pr.cont, pr.tron
                        ),
                        &script.join("\n"),
                    );
                    return;
                }
            }
            for l in &l2 {
                s.enter(l);
                s.drain(16);
            }
            script.extend(l2.iter().cloned());
        }
        let which = rng.usize(4);
        if which == 1 && !l2.is_empty() && s.listing_text().len() == l2.len() {
            // CLEAR executed by the program itself, wherever it is (inside loops and subroutines): `CLEAR:STOP`
            // is put in front of one line; when the run stops there the probe must show the start-up state
            let i = rng.usize(l2.len());
            let (num, rest) = l2[i].split_once(' ').unwrap_or((l2[i].as_str(), ""));
            let patched = format!("{} CLEAR:STOP:{}", num, rest);
            if patched.len() < 1000 {
                script.push(patched.clone());
                script.push("RUN".into());
                s.enter(&patched);
                s.drain(16);
                s.auto_replies = p2.replies.clone();
                s.auto_pos = 0;
                let (t, st) = cmd0(&mut s, "RUN");
                if st == Stop::Budget {
                    ctx.count("discarded_budget");
                    return;
                }
                if t.contains(&format!("?BREAK IN {}\n", num)) && t.matches("?BREAK IN").count() == 1 {
                    let pr = s.rt.verif_probe();
                    let fresh = Session::new().rt.verif_probe();
                    ctx.count("clear_in_program_probes");
                    if !pr.vars.is_empty() || !pr.dims.is_empty() || pr.types != fresh.types || !pr.functions.is_empty() || !pr.stack.is_empty() || pr.data_pos != 0 {
                        ctx.violation(
                            "clear-incomplete",
                            "reset:clear-in-program",
                            &format!(
                                "after CLEAR executed in line {}: vars={:?} dims={:?} types_default={} functions={:?} stack={:?} data_pos={}",
                                num, pr.vars, pr.dims, pr.types == fresh.types, pr.functions, pr.stack, pr.data_pos
                            ),
                            &script.join("\n"),
                        );
                        return;
                    }
                }
                // put the line back
                script.push(l2[i].clone());
                s.enter(&l2[i]);
                s.drain(16);
                s.auto_pos = 0;
            }
        }
        if which == 0 {
            // CLEAR leaves the start-up state
            script.push("CLEAR".into());
            cmd(&mut s, "CLEAR");
            let pr = s.rt.verif_probe();
            let fresh = Session::new().rt.verif_probe();
            ctx.count("clear_probes");
            if !pr.vars.is_empty() || !pr.dims.is_empty() || pr.types != fresh.types || !pr.functions.is_empty()
                || !pr.stack.is_empty() || pr.data_pos != 0 || pr.cont != "Stopped"
            {
                ctx.violation(
                    "clear-incomplete",
                    "reset:clear",
                    &format!(
                        "after CLEAR: vars={:?} dims={:?} types_default={} functions={:?} stack={:?} data_pos={}",
                        pr.vars, pr.dims, pr.types == fresh.types, pr.functions, pr.stack, pr.data_pos
                    ),
                    &script.join("\n"),
                );
                return;
            }
        }
        // RUN, or RUN n: CLEAR followed by GOTO n
        let fin = if rng.chance(1, 4) && !p2.lines.is_empty() {
            format!("RUN {}", p2.num(p2.lines[rng.usize(p2.lines.len())].label))
        } else {
            "RUN".to_string()
        };
        script.push(fin.clone());
        let text = script.join("\n");
        mon::journal(&text);
        s.auto_replies = p2.replies.clone();
        let (t_hist, st) = cmd0(&mut s, &fin);
        let mut f = typed_p(&p2, &l2);
        let (t_fresh, st2) = cmd0(&mut f, &fin);
        if st == Stop::Budget || st2 == Stop::Budget {
            ctx.count("discarded_budget");
            return;
        }
        ctx.eval(&text, t_fresh.len() > 30);
        ctx.add("events_compared", (s.log.len() + f.log.len()) as u64);
        if ctx.want_sample() && n > 2 {
            ctx.sample(&text);
        }
        if t_hist != t_fresh {
            ctx.violation(
                "run-depends-on-history",
                "reset:run",
                &format!("{}\nafter the session prefix: {:?}\nfresh interpreter       : {:?}", first_diff(&t_hist, &t_fresh), t_hist, t_fresh),
                &text,
            );
            return;
        }
        // final variable state must match too
        let (a, b) = (s.rt.verif_probe(), f.rt.verif_probe());
        if format!("{:?}{:?}{:?}", a.vars, a.dims, a.types) != format!("{:?}{:?}{:?}", b.vars, b.dims, b.types) {
            ctx.violation(
                "state-depends-on-history",
                "reset:state",
                &format!("variables after the run differ: {:?} vs fresh {:?}", a.vars, b.vars),
                &text,
            );
        }
    }

    // ------------------------------------------------------------------ C13
    fn c13(&self, rng: &mut Rng, ctx: &mut Ctx) {
        let with_input = rng.chance(1, 2);
        let mut p = gen_prog_in(rng, true, with_input);
        let mut has_list = false;
        if rng.chance(1, 4) && p.lines.len() >= 3 {
            // a LIST statement inside the program: while it lists, the program is in a state of its own
            let cands: Vec<usize> = (0..p.lines.len()).filter(|i| !matches!(p.lines[*i].sts.first(), Some(gen::St::Data(..)) | Some(gen::St::Def(..)) | None)).collect();
            if !cands.is_empty() {
                let at = *rng.pick(&cands);
                let a = rng.usize(p.lines.len());
                let b = (a + rng.usize(4)).min(p.lines.len() - 1);
                let (la, lb) = (p.lines[a].label, p.lines[b].label);
                p.lines[at].sts.insert(0, gen::St::Cmd("LIST {}-{}", vec![la, lb]));
                has_list = true;
            }
        }
        let lines = gen::render(&p);
        let replies = p.replies.clone();
        let text = if replies.is_empty() { lines.join("\n") } else { format!("{}\n--- INPUT replies ---\n{}", lines.join("\n"), replies.join("\n")) };
        mon::journal(&text);
        // complete run with quantum q; STOP/END are continued with CONT; INPUT prompts are answered
        // from the reply script. Returns (transcript, final variables, execute calls).
        let run_all = |lines: &[String], q: usize, inspect: bool| -> Option<(String, String, u64)> {
            let mut s = typed(lines);
            s.quantum = q;
            let mark = s.mark();
            s.enter("RUN");
            let mut out;
            let mut conts = 0;
            let mut steps = 0u64;
            let mut used = 0usize;
            loop {
                let before = s.calls;
                let seg = s.mark();
                let st = drain_with_replies(&mut s, &replies, &mut used, 2_000_000);
                steps += s.calls - before;
                if st != Stop::Stopped {
                    return None;
                }
                // CONT after a genuine error is not specified: the run ends there
                let failed = s.events_since(seg).iter().any(|e| matches!(e, crate::drive::Ev::Error(d, _, _) if !d.starts_with("?BREAK") && !d.starts_with("?REDO")));
                if used > replies.len() {
                    return None;
                }
                out = transcript(s.events_since(mark), Norm::STD);
                let pr = s.rt.verif_probe();
                if conts > 50 {
                    // a STOP / END inside a long loop: not a complete run, never compared
                    return None;
                }
                if pr.cont == "Stopped" || failed {
                    break;
                }
                // stopped by STOP / END with a continuation available
                if out.contains("?BREAK IN") || pr.cont == "Running" {
                    if inspect {
                        s.enter("PRINT \"\";");
                        s.drain(50);
                    }
                    conts += 1;
                    s.enter("CONT");
                } else {
                    break;
                }
            }
            let pr = s.rt.verif_probe();
            // a run that ran out of replies was interrupted at a prompt: not a complete run
            if out.matches("<INPUT ").count() > replies.len() {
                return None;
            }
            Some((out, format!("{:?}", pr.vars), steps))
        };
        let base = match run_all(&lines, 5000, false) {
            Some(b) => b,
            None => {
                ctx.count("discarded_budget_or_replies");
                ctx.evals += 1;
                return;
            }
        };
        // (1) quantum independence
        for q in [1usize, 2, 3, 7, 64] {
            match run_all(&lines, q, false) {
                Some(r) => {
                    ctx.count("quantum_runs");
                    if r.0 != base.0 || r.1 != base.1 {
                        ctx.violation(
                            "quantum-dependent",
                            "cont:quantum",
                            &format!("quantum {}: {}\nq=5000: {:?}\nq={}: {:?}", q, first_diff(&base.0, &r.0), base.0, q, r.0),
                            &text,
                        );
                        return;
                    }
                }
                None => {
                    ctx.violation("no-stop", "cont:quantum-no-stop", &format!("does not stop with quantum {}", q), &text);
                    return;
                }
            }
        }
        // (1b) inspecting variables at every STOP / END does not disturb the run
        if let Some(r) = run_all(&lines, 5000, true) {
            ctx.count("inspect_runs");
            if r.1 != base.1 || r.0.replace("READY.\n<STOPPED>", "") != base.0.replace("READY.\n<STOPPED>", "") {
                ctx.violation(
                    "inspect-disturbs",
                    "cont:inspect",
                    &format!("PRINT \"\"; typed at every stop changes the run: {}\nplain  : {:?}\ninspect: {:?}", first_diff(&base.0, &r.0), base.0, r.0),
                    &text,
                );
                return;
            }
        }
        // (1c) STOP or END inserted at a statement boundary, continued with CONT
        // (not for programs that list themselves: the inserted statement would show in the listing)
        if !has_list {
            let mut q = p.clone();
            let cands: Vec<usize> = q
                .lines
                .iter()
                .enumerate()
                .filter(|(_, l)| !matches!(l.sts.first(), Some(gen::St::Data(..)) | Some(gen::St::Def(..)) | None))
                .map(|(i, _)| i)
                .collect();
            if !cands.is_empty() {
                let li = *rng.pick(&cands);
                let mut at = rng.usize(q.lines[li].sts.len() + 1);
                // not behind a remark (the rest of the line is comment) and not behind IF (its arms own the rest)
                let mut blocked = q.lines[li].sts[..at].iter().any(|s| matches!(s, gen::St::Rem(..) | gen::St::If(..)));
                let what = if rng.coin() { gen::St::Stop } else { gen::St::End };
                let name = if what == gen::St::Stop { "STOP" } else { "END" };
                // every second time: inside the arms of an IF (start or end of THEN / ELSE), if the line has one
                let mut in_arm = false;
                if rng.coin() {
                    let ifs: Vec<(usize, usize)> = q
                        .lines
                        .iter()
                        .enumerate()
                        .flat_map(|(i, l)| l.sts.iter().enumerate().filter(|(_, s)| matches!(s, gen::St::If(..))).map(move |(j, _)| (i, j)))
                        .collect();
                    if !ifs.is_empty() {
                        let (i, j) = *rng.pick(&ifs);
                        if let gen::St::If(_, t, e) = &mut q.lines[i].sts[j] {
                            let arm: &mut Vec<gen::St> = match e {
                                Some(e) if rng.coin() => e,
                                _ => t,
                            };
                            // a lone GOTO arm may be written `THEN n`; keep the statement form
                            let k = if rng.coin() { arm.len() } else { 0 };
                            if !arm[..k].iter().any(|s| matches!(s, gen::St::If(..) | gen::St::Rem(..))) {
                                arm.insert(k, what.clone());
                                in_arm = true;
                                blocked = false;
                                at = j;
                                let _ = at;
                            }
                        }
                    }
                }
                if !blocked {
                    if !in_arm {
                        q.lines[li].sts.insert(at, what);
                    }
                    let l2 = gen::render(&q);
                    if let Some(r) = run_all(&l2, 5000, rng.coin()) {
                        ctx.count("inserted_stop_end_runs");
                        // without prompts, ?BREAK messages and line breaks (a stop forces one when the
                        // cursor is not at the left margin)
                        let norm = |t: &str| -> String {
                            let t = t.replace("READY.\n<STOPPED>", "");
                            let mut o = String::new();
                            let mut rest: &str = &t;
                            while let Some(i) = rest.find("?BREAK IN ") {
                                o.push_str(&rest[..i]);
                                rest = &rest[i + 10..];
                                let d = rest.chars().take_while(|c| c.is_ascii_digit()).count();
                                rest = &rest[d..];
                            }
                            o.push_str(rest);
                            o.replace('\n', "")
                        };
                        // a program that already ends in the middle (STOP/END reached before the inserted
                        // statement) compares equal trivially; that is fine
                        if norm(&r.0) != norm(&base.0) || r.1 != base.1 {
                            ctx.violation(
                                "stop-not-transparent",
                                &format!("cont:inserted-{}", name),
                                &format!(
                                    "{} inserted in line {} (statement {}), continued with CONT: output {:?}, without it {:?}; variables {} vs {}",
                                    name,
                                    q.num(q.lines[li].label),
                                    at,
                                    r.0,
                                    base.0,
                                    r.1,
                                    base.1
                                ),
                                &format!("{}\n--- with {} ---\n{}", text, name, l2.join("\n")),
                            );
                            return;
                        }
                    }
                }
            }
        }
        // (2) interrupt after k execute(1) calls, inspect, CONT. INPUT prompts are answered before the
        // next call, so k can also fall on a prompt that has not been answered yet.
        // advance(s, k): Some(pending_prompt) when k calls were made without the program stopping
        let advance = |s: &mut Session, k: u64, used: &mut usize| -> Option<bool> {
            let mut pending = false;
            let mut pending_key = false;
            let mut n = 0u64;
            while n < k {
                if pending {
                    if *used >= replies.len() {
                        return None;
                    }
                    let r = replies[*used].clone();
                    *used += 1;
                    s.enter(&r);
                    pending = false;
                }
                if pending_key {
                    s.enter("");
                    pending_key = false;
                }
                match s.step_q(1) {
                    Some(Stop::Input(..)) => pending = true,
                    Some(Stop::Inkey) => pending_key = true,
                    Some(_) => return None,
                    None => {}
                }
                n += 1;
            }
            Some(pending || pending_key)
        };
        let mut total = 0u64;
        {
            let mut probe_s = typed(&lines);
            probe_s.enter("RUN");
            let mut used = 0usize;
            let mut pending = false;
            while total < 6000 {
                if pending {
                    if used >= replies.len() {
                        break;
                    }
                    probe_s.enter(&replies[used].clone());
                    used += 1;
                    pending = false;
                }
                match probe_s.step_q(1) {
                    Some(Stop::Input(..)) => pending = true,
                    Some(Stop::Inkey) => {
                        probe_s.enter("");
                    }
                    Some(_) => break,
                    None => {}
                }
                total += 1;
            }
        }
        if total >= 6000 || total < 5 {
            ctx.count("discarded_too_long_for_interrupt_sweep");
            ctx.evals += 1;
            return;
        }
        // the uninterrupted run up to its first stop
        let (t_first, v_first) = {
            let mut first = typed(&lines);
            let mark0 = first.mark();
            first.enter("RUN");
            let mut used = 0usize;
            drain_with_replies(&mut first, &replies, &mut used, CALLS);
            (transcript(first.events_since(mark0), Norm::STD), format!("{:?}", first.rt.verif_probe().vars))
        };
        let ks: Vec<u64> = if ctx.tier == Tier::Thorough || total <= 150 {
            (1..total).collect()
        } else {
            let mut v: Vec<u64> = (0..150).map(|_| 1 + rng.below(total - 1)).collect();
            v.sort();
            v.dedup();
            v
        };
        let mut tested = 0u64;
        for k in ks.iter().copied() {
            let mut s = typed(&lines);
            let mark = s.mark();
            s.enter("RUN");
            let mut used = 0usize;
            let pending = match advance(&mut s, k, &mut used) {
                Some(p) => p,
                None => continue,
            };
            let pr = s.rt.verif_probe();
            // (RuntimeError: an error has been raised but not reported yet -- a break in that window defers it to CONT)
            if !matches!(pr.state, "Running" | "Input" | "InputRunning" | "InputRedo" | "Inkey" | "RuntimeError" | "Listing") {
                continue;
            }
            if pr.pc >= pr.direct_address {
                // still inside the direct RUN command itself: nothing to continue
                continue;
            }
            ctx.cover("states_interrupted", pr.state);
            if !pr.stack.is_empty() {
                ctx.count("interrupts_with_values_on_the_stack");
            }
            s.interrupt();
            if s.drain(50) != Stop::Stopped {
                ctx.violation("interrupt-ignored", "cont:interrupt-no-stop", &format!("interrupt after {} instructions did not stop the program", k), &text);
                return;
            }
            let part1 = transcript(s.events_since(mark), Norm::STD);
            if k % 2 == 0 {
                s.enter("PRINT A;B;C");
                s.drain(50);
            }
            let mark2 = s.mark();
            s.enter("CONT");
            drain_with_replies(&mut s, &replies, &mut used, CALLS);
            let part2 = transcript(s.events_since(mark2), Norm::STD);
            tested += 1;
            // remove the ?BREAK message (and the line break it may have forced)
            let cut = match part1.rfind("?BREAK IN ") {
                Some(i) => i,
                None => {
                    ctx.violation("no-break-message", "cont:no-break", &format!("interrupt after {} instructions printed {:?}", k, part1), &text);
                    return;
                }
            };
            let mut head = part1[..cut].to_string();
            if pending {
                // interrupted at a prompt that was shown but not answered: CONT shows it again
                if head.ends_with("<INKEY>\n") {
                    // the break forced a line break after the marker; keep it for the comparison below
                    head.truncate(head.len() - 8);
                    head.push('\n');
                } else if head.ends_with("<INKEY>") {
                    head.truncate(head.len() - 7);
                } else if let Some(i) = head.rfind("<INPUT ") {
                    if head[i..].ends_with('>') && !head[i..].contains('\n') {
                        head.truncate(i);
                    }
                }
            }
            let joined_a = format!("{}{}", head, part2);
            let joined_b = format!("{}{}", head.strip_suffix('\n').unwrap_or(&head), part2);
            let vars = format!("{:?}", s.rt.verif_probe().vars);
            // the break forces a line break where the cursor stood; a later forced one (before READY.) may
            // then disappear: the same text with at most one line break more or fewer
            let nl = |t: &str| t.matches('\n').count() as i64;
            let moved_break = joined_a.replace('\n', "") == t_first.replace('\n', "") && (nl(&joined_a) - nl(&t_first)).abs() <= 1;
            if (joined_a != t_first && joined_b != t_first && !moved_break) || vars != v_first {
                ctx.violation(
                    "cont-not-transparent",
                    &format!("cont:interrupt:{}", pr.state),
                    &format!(
                        "interrupt after {} of {} execute(1) calls (state {}) then CONT: output {:?} + {:?}, uninterrupted {:?}; final variables {} vs {}",
                        k, total, pr.state, head, part2, t_first, vars, v_first
                    ),
                    &text,
                );
                return;
            }
        }
        ctx.add("interrupt_points_tested", tested);
        ctx.max("max_instructions_in_swept_program", total);
        ctx.eval(&text, tested >= 5);
        if ctx.want_sample() && tested > 30 {
            ctx.sample(&format!("{}\n(interrupted at {} distinct instruction boundaries of {}, CONT each time)", text, tested, total));
        }
    }

    // ------------------------------------------------------------------ C04
    fn c04(&self, rng: &mut Rng, ctx: &mut Ctx) {
        let p1 = gen_prog(rng, true);
        let l1 = gen::render(&p1);
        let mut script: Vec<String> = l1.clone();
        let mut s = typed_p(&p1, &l1);
        // optionally run first (may stop inside loops/subroutines through STOP)
        if rng.chance(2, 3) {
            script.push("RUN".into());
            let (_, st) = cmd(&mut s, "RUN");
            if st == Stop::Budget {
                ctx.count("discarded_budget");
                return;
            }
        }
        let p2 = gen_prog(rng, true);
        let l2 = gen::render(&p2);
        let nums1: Vec<u16> = p1.lines.iter().map(|l| p1.num(l.label)).collect();
        // a hand-written file "G": the other program with bare line numbers in between (a bare number in a file
        // removes that line, as it does when typed)
        {
            let mut g: Vec<String> = vec![];
            for (i, l) in l2.iter().enumerate() {
                g.push(l.clone());
                if rng.chance(1, 4) {
                    let victim = if rng.coin() { l2[rng.usize(i + 1)].split(' ').next().unwrap_or("1").to_string() } else { rng.range(0, 900).to_string() };
                    g.push(victim);
                }
            }
            s.files.insert("G".to_string(), g);
        }
        let n_edits = rng.range(1, 8);
        let mut mutated = false;
        for _ in 0..n_edits {
            let before = s.listing_text();
            let mut non_editing = false;
            let c: String = match rng.usize(18) {
                // a line with a compile-time error, later perhaps replaced by a good one
                15 => format!("{} PRINT )", if rng.coin() { *rng.pick(&nums1) } else { rng.range(0, 900) as u16 }),
                // direct statements that are themselves in error
                16 => {
                    non_editing = true;
                    rng.pick(&["RUM", "PRINT )", "GOTO", "NEXT Q9", "PRINT 1/0", "A$=5"]).to_string()
                }
                // the trace flag belongs to the session, not to the program
                17 => rng.pick(&["TRON", "TRON", "TROFF"]).to_string(),
                12 if rng.chance(1, 3) => "NEW".to_string(),
                // a program line that edits the program when it runs, and a run in the middle of the history
                12 => format!("{} DELETE {}", rng.pick(&nums1), rng.pick(&nums1)),
                11 if rng.coin() => "RUN".to_string(),
                13 => "SAVE \"F\"".to_string(),
                14 => rng.pick(&["LOAD \"F\"", "LOAD \"F\"", "LOAD \"NOFILE\"", "LOAD \"G\"", "LOAD \"G\""]).to_string(),
                0 | 1 => rng.pick(&l2).clone(),                                   // insert / replace from another program
                2 => format!("{}", rng.pick(&nums1)),                             // delete an existing line
                3 => format!("{}", rng.range(0, 900)),                            // delete a (probably) absent line
                4 => format!("{} PRINT \"EDIT\";{}", rng.pick(&nums1), rng.range(0, 9)),
                5 => format!("DELETE {}-{}", rng.range(0, 300), rng.range(300, 900)),
                6 => format!("DELETE {}", rng.pick(&nums1)),
                7 => "RENUM".to_string(),
                8 if rng.chance(1, 3) => format!("RENUM {},,{}", 65_529 - rng.range(0, 40), rng.range(1, 12)),
                8 => format!("RENUM {},{},{}", rng.range(1, 500), rng.range(0, 50), rng.range(1, 20)),
                9 => {
                    non_editing = true;
                    rng.pick(&[
                        "A=5:PRINT A", "PRINT 1+1", "X1=3", "GOSUB 65000", "LIST 1-2", "CLEAR", "FOR I=1 TO 3:NEXT", "DIM QQ(4):QQ(2)=1",
                        "READ A", "RESTORE", "DEFINT Q", "TRON:TROFF", "RETURN", "CONT", "A$=\"10 PRINT 1\":PRINT A$", "INPUT A", "ON 1 GOTO 65000",
                        "SWAP A,B", "MID$(A$,1)=\"X\"", "DATA 1,2", "DEF FNQ(X)=X", "STOP", "END", "LIST",
                    ])
                    .to_string()
                }
                10 => format!("{} REM", rng.range(0, 900)),
                _ => {
                    let l = rng.pick(&l2).clone();
                    l
                }
            };
            script.push(c.clone());
            if c == "RUN" {
                // frames, CONT point and functions left by this run belong to the program as it is now
                mutated = false;
            }
            let (_, st) = cmd(&mut s, &c);
            if st == Stop::Budget {
                ctx.count("discarded_budget");
                return;
            }
            if s.listing_text() != before {
                mutated = true;
                // CONT / RETURN hand control back to the program, which may itself contain a DELETE line
                let resumes_editing_program = (c == "CONT" || c == "RETURN") && before.iter().any(|l| l.contains("DELETE"));
                if non_editing && !resumes_editing_program {
                    ctx.violation(
                        "direct-statement-changed-program",
                        &format!("edit:direct-altered:{}", c.split(|ch: char| !ch.is_ascii_alphabetic()).next().unwrap_or("")),
                        &format!("the direct statement {:?} is not an editing command but the listing changed from {:?} to {:?}", c, before, s.listing_text()),
                        &script.join("\n"),
                    );
                    return;
                }
            }
            if non_editing {
                ctx.count("non_editing_direct_statements_checked");
            }
            ctx.cover("edit_kinds", c.split(' ').next().unwrap_or("").trim_matches(|ch: char| ch.is_ascii_digit()));
        }
        let listing = s.listing_text();
        let fin = match rng.usize(6) {
            0 if !listing.is_empty() => {
                let l = rng.pick(&listing);
                format!("RUN {}", l.split(' ').next().unwrap_or("0"))
            }
            // resuming is only forbidden into an *edited* program
            1 if mutated => "CONT".to_string(),
            2 if mutated => "RETURN".to_string(),
            3 if mutated => "NEXT".to_string(),
            // a function defined by the earlier run must be gone with the old program
            4 if mutated => {
                let defs: Vec<(usize, usize)> = p1
                    .lines
                    .iter()
                    .flat_map(|l| l.sts.iter())
                    .filter_map(|st| if let gen::St::Def(k, ps, _) = st { Some((*k, ps.len())) } else { None })
                    .collect();
                match defs.first() {
                    Some((k, ar)) => format!("PRINT {}({})", gen::FNS[*k], vec!["1"; *ar].join(",")),
                    None => "RUN".to_string(),
                }
            }
            _ => "RUN".to_string(),
        };
        script.push(fin.clone());
        let text = script.join("\n");
        mon::journal(&text);
        let tron_on = s.rt.verif_probe().tron;
        let (t_hist, st) = cmd0(&mut s, &fin);
        let mut f = typed_p(&p1, &listing);
        if tron_on {
            cmd(&mut f, "TRON");
        }
        let (t_fresh, st2) = cmd0(&mut f, &fin);
        if st == Stop::Budget || st2 == Stop::Budget {
            ctx.count("discarded_budget");
            return;
        }
        ctx.eval(&text, !listing.is_empty());
        ctx.cover("final_commands", fin.split(' ').next().unwrap_or(""));
        ctx.add("events_compared", (s.log.len() + f.log.len()) as u64);
        if ctx.want_sample() && n_edits > 3 {
            ctx.sample(&text);
        }
        if s.listing_text() != f.listing_text() {
            ctx.violation("listing-diverged", "edit:listing", "listing after the final command differs between history and fresh run", &text);
            return;
        }
        if sort_error_runs(&t_hist) != sort_error_runs(&t_fresh) {
            ctx.violation(
                "stale-program",
                &format!("edit:{}", fin.split(' ').next().unwrap_or("")),
                &format!(
                    "after the edit history {:?} gives {:?}; a fresh interpreter with the same listing gives {:?}\nlisting:\n{}",
                    fin,
                    t_hist,
                    t_fresh,
                    listing.join("\n")
                ),
                &text,
            );
        }
    }
}

impl Prop for Meta {
    fn cases(&self, tier: Tier) -> u64 {
        match (self.id, tier) {
            ("C13", Tier::Quick) => 6_000,
            ("C13", Tier::Thorough) => 96_000,
            (_, Tier::Quick) => 150_000,
            (_, Tier::Thorough) => 2_400_000,
        }
    }

    fn cpu_budget_s(&self) -> u64 {
        90
    }

    fn rule(&self) -> &'static str {
        match self.id {
            "C04" => "Session: type a generated program, optionally RUN it (it may stop at STOP inside loops and subroutines), apply 1..8 edits (insert/replace lines of another program, bare numbers for present and absent lines, DELETE ranges, RENUM, direct statements), then RUN / RUN n, or (only if the listing really changed) CONT / RETURN / NEXT. Oracle: the transcript must equal that of a fresh Runtime into which get_listing() text was typed followed by the same command. Distinct = hash of the script; non-trivial = the final listing is not empty.",
            "C12" => "Session prefix (program typed, 1..5 of RUN / direct statements setting variables, DEFtypes, DIM, DEF FN, open FOR frames, GOSUB, READ, errors, STOP), then optionally NEW + another program, optionally CLEAR (probe must show start-up state), then RUN. Oracle: transcript and final variable state equal those of a fresh Runtime running the same program. Non-trivial = the run prints more than 30 characters.",
            "C13" => "For each generated program: (1) complete runs with execute() quanta 1,2,3,7,64 vs 5000 (STOP/END continued with CONT) must give identical transcripts and final variables; (2) interrupt sweep: for every k (all k when the run has <=150 instructions or in the thorough tier, 150 sampled otherwise) run k single-instruction slices, interrupt(), optionally inspect variables in direct mode, CONT; output minus the ?BREAK message and its forced line break, and final variables, must equal the uninterrupted run. Non-trivial = at least 5 interruption points were exercised.",
            "C16" => "Each generated program is rendered canonically and in a random spelling (keyword/identifier case, optional blanks incl. none after the line number and after PRINT/GOTO/GOSUB, ? for PRINT, GO TO / GO SUB, =< and =>, blanks inside <= >= <>, blanks around ':' and operators). Both are typed into fresh Runtimes: listings must be identical line by line up to the blanks the user typed between tokens (which listings keep) and RUN transcripts identical. Non-trivial = at least two lines differ in spelling.",
            _ => "Each generated program is run in a base layout and in a transformed one: other start/step numbering; no-op lines (REM, ', :, ::) squeezed in front of lines plus unreachable lines after the end; multi-statement lines split into consecutive lines where no IF/REM scoping is involved. Transcripts must agree up to the line numbers in messages. Then a direct statement list is run with no program and with the program loaded, and as a one-line program. Non-trivial = layouts differ and the run prints more than 40 characters.",
        }
    }

    fn run_case(&mut self, _idx: u64, rng: &mut Rng, ctx: &mut Ctx) {
        match self.id {
            "C04" => self.c04(rng, ctx),
            "C12" => self.c12(rng, ctx),
            "C13" => self.c13(rng, ctx),
            "C16" => self.c16(rng, ctx),
            _ => self.c20(rng, ctx),
        }
    }
}
