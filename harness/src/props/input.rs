//! C17 — INPUT parses replies as documented and retries per reply.

use crate::conv::from_val;
use crate::ctx::{Ctx, Tier};
use crate::drive::{transcript, Norm, Session, Stop};
use crate::model::val::{self as mv, Ty, V};
use crate::mon;
use crate::rng::Rng;
use crate::Prop;

pub struct C17;

const GOOD_NUM: [&str; 41] = [
    "0", "7", "-3", "+4", "1.5", "-.25", "3.", "1E2", "1e2", "2D1", "1.5E-1", "32767", "-32768", "32768", "40000", "&H1F",
    "&hff", "&17", "", "  12  ", "1E5", "0.1", "&HD", "&h1d", "&HAD", " &H7D0 ", "&H1E", "&hE2", "&HDE", "&h7fff", "&77777",
    "&0", "&H0", "2d-1", "1D+2", "1.25d1", "007", "-0.5", " ", "   ", " -2",
];
const BAD_NUM: [&str; 18] = ["x", "1x", "--1", "1 2", "12AB", "inf", "nan", ".", "E5", "&HG", "&8", "\"5\"", "&", "&H", "&h", "&é", "é", "&H1G"];
const STRS: [&str; 12] = ["HELLO", "hello world", "", "  padded  ", "\"quoted\"", "\"a,b\"", "\"  keep  \"", "é→ß", "\"", "a\"b", "\"x", "12"];

fn parse_num(f: &str) -> Option<f64> {
    let f = f.trim();
    if f.is_empty() {
        return Some(0.0);
    }
    if let Some(r) = f.strip_prefix('&') {
        if let Some(h) = r.strip_prefix('H').or_else(|| r.strip_prefix('h')) {
            return i16::from_str_radix(h, 16).ok().map(|n| n as f64);
        }
        return i16::from_str_radix(r, 8).ok().map(|n| n as f64);
    }
    let b: Vec<char> = f.chars().collect();
    let mut i = 0;
    if i < b.len() && (b[i] == '+' || b[i] == '-') {
        i += 1;
    }
    let mut digits = 0;
    while i < b.len() && b[i].is_ascii_digit() {
        i += 1;
        digits += 1;
    }
    if i < b.len() && b[i] == '.' {
        i += 1;
        while i < b.len() && b[i].is_ascii_digit() {
            i += 1;
            digits += 1;
        }
    }
    if digits == 0 {
        return None;
    }
    if i < b.len() && matches!(b[i], 'e' | 'E' | 'd' | 'D') {
        i += 1;
        if i < b.len() && (b[i] == '+' || b[i] == '-') {
            i += 1;
        }
        let mut ed = 0;
        while i < b.len() && b[i].is_ascii_digit() {
            i += 1;
            ed += 1;
        }
        if ed == 0 {
            return None;
        }
    }
    if i != b.len() {
        return None;
    }
    f.replace(['d', 'D'], "E").parse::<f64>().ok()
}

fn split_fields(reply: &str, n: usize) -> Option<Vec<String>> {
    if n == 1 {
        return Some(vec![reply.to_string()]);
    }
    let mut out = vec![];
    let mut cur = String::new();
    let mut q = false;
    for c in reply.chars() {
        match c {
            '"' => {
                q = !q;
                cur.push(c)
            }
            ',' if !q => {
                out.push(std::mem::take(&mut cur));
            }
            _ => cur.push(c),
        }
    }
    out.push(cur);
    if out.len() == n {
        Some(out)
    } else {
        None
    }
}

impl Prop for C17 {
    fn cases(&self, tier: Tier) -> u64 {
        match tier {
            Tier::Quick => 1_200_000,
            Tier::Thorough => 4_000_000,
        }
    }

    fn rule(&self) -> &'static str {
        "Direct line `INPUT [,][\"prompt\";]v1[,v2..]:PRINT \"OK\"` with 1..4 variables of type %, !, #, $ (scalars and \
         array elements) and a script of 1..4 replies assembled from good numeric fields (sign, decimal point, E/e/D \
         exponent, &H / & radix, empty, padded, Integer limits), bad ones (letters, inner blanks, inf/nan, lone '.', \
         quoted digits), strings with quotes, commas inside quotes, padding and multi-byte text, and wrong field \
         counts. Oracle (reference reply parser): the prompt event is prompt + '? ' with caps off exactly for the \
         leading-comma form; a reply with the wrong number of fields or an unconvertible / out-of-range field gives \
         ?REDO FROM START and the same prompt; the first acceptable reply ends the statement (OK printed) with every \
         variable holding the converted field in its own type (read through the probe). Distinct = hash of statement \
         and replies; non-trivial = at least one REDO or a quoted/padded/radix field was involved."
    }

    fn run_case(&mut self, _idx: u64, rng: &mut Rng, ctx: &mut Ctx) {
        let nv = rng.range(1, 4) as usize;
        // a DEFtype setting for the variables' first letters: targets with a suffix of their own ignore it,
        // targets without one get their type from it
        let (defstmt, ty_v, ty_w): (Option<&str>, Ty, Ty) = if rng.chance(1, 3) {
            *rng.pick(&[
                (Some("DEFSTR V-W"), Ty::Str, Ty::Str),
                (Some("DEFSTR A-Z"), Ty::Str, Ty::Str),
                (Some("DEFINT V-W"), Ty::I, Ty::I),
                (Some("DEFDBL V"), Ty::D, Ty::S),
                (Some("DEFSNG W:DEFSTR V"), Ty::Str, Ty::S),
            ])
        } else {
            (None, Ty::S, Ty::S)
        };
        let _ = ty_w;
        let tys = [("%", Ty::I), ("!", Ty::S), ("#", Ty::D), ("$", Ty::Str)];
        let mut vars: Vec<(String, String, Ty)> = vec![];
        for i in 0..nv {
            let (suf, ty) = if rng.chance(1, 4) { ("", ty_v) } else { tys[rng.usize(4)] };
            let base = format!("V{}{}", i, suf);
            if rng.chance(1, 4) {
                vars.push((format!("{}(2)", base), format!("{}(2)", base), ty));
            } else {
                vars.push((base.clone(), base, ty));
            }
        }
        // an array target whose subscript is an Integer variable read earlier in the same statement
        let mut dependent: Option<usize> = None;
        if nv >= 2 && rng.chance(1, 4) {
            vars[0] = ("V0%".to_string(), "V0%".to_string(), Ty::I);
            let k = 1 + rng.usize(nv - 1);
            let (suf, ty) = tys[rng.usize(4)];
            let base = format!("W{}{}", k, suf);
            vars[k] = (format!("{}(V0%)", base), base, ty);
            dependent = Some(k);
        }
        let comma = rng.chance(1, 3);
        let prompt = if rng.coin() { Some(*rng.pick(&["NAME", "a b", "é", ""])) } else { None };
        let mut stmt = match defstmt {
            Some(d) => format!("{}:INPUT ", d),
            None => String::from("INPUT "),
        };
        if comma {
            stmt.push(',');
        }
        if let Some(p) = prompt {
            stmt.push_str(&format!("\"{}\";", p));
        }
        stmt.push_str(&vars.iter().map(|v| v.0.clone()).collect::<Vec<_>>().join(","));
        stmt.push_str(":PRINT \"OK\"");
        // replies: some bad ones, then a good one
        let mut replies: Vec<String> = vec![];
        let mut interesting = false;
        let nbad = rng.usize(4);
        for k in 0..=nbad {
            let last = k == nbad;
            let mut fields: Vec<String> = vec![];
            let count = if last || rng.chance(2, 3) { nv } else { (nv + 1 + rng.usize(2)).max(1) - rng.usize(2) * 2 % (nv + 1) };
            let count = count.max(1);
            let bad_at = if last { usize::MAX } else { rng.usize(count) };
            for i in 0..count {
                let ty = vars.get(i).map(|v| v.2).unwrap_or(Ty::S);
                let f = if ty == Ty::Str {
                    let mut s = rng.pick(&STRS[..]).to_string();
                    if nv == 1 && rng.chance(1, 4) {
                        s = format!("{},{}", s, "tail");
                    }
                    s
                } else if i == bad_at {
                    rng.pick(&BAD_NUM[..]).to_string()
                } else if i == 0 && dependent.is_some() {
                    rng.pick(&["0", "1", "3", "10", " 7 ", "2.9", "11", "-1", "&HA", "", "12"]).to_string()
                } else {
                    rng.pick(&GOOD_NUM[..]).to_string()
                };
                if f.contains('"') || f.contains('&') || f.starts_with(' ') {
                    interesting = true;
                }
                fields.push(f);
            }
            let mut r = fields.join(",");
            if !last && rng.chance(1, 12) {
                // longer than the line buffer: never acceptable
                r = format!("{}{}", r, "1".repeat(1030));
                interesting = true;
            }
            replies.push(r);
        }
        // model
        let expect_prompt = format!("{}? ", prompt.unwrap_or(""));
        let mut want = String::new();
        let mut finals: Vec<V> = vec![];
        let mut done = false;
        let mut used = 0;
        for r in &replies {
            want.push_str(&format!("<INPUT {:?} caps={}>", expect_prompt, !comma));
            used += 1;
            let ok = (|| -> Option<Vec<V>> {
                if r.len() > 1024 {
                    return None;
                }
                let fields = split_fields(r, nv)?;
                let mut vals = vec![];
                for (f, v) in fields.iter().zip(vars.iter()) {
                    let t = f.trim();
                    if v.2 == Ty::Str {
                        let inner = if t.chars().count() >= 2 && t.starts_with('"') && t.ends_with('"') {
                            &t[1..t.len() - 1]
                        } else {
                            t
                        };
                        vals.push(V::Str(inner.to_string()));
                    } else {
                        let x = parse_num(t)?;
                        match mv::assign(v.2, &V::D(x)) {
                            Ok(c) => vals.push(c),
                            Err(_) => return None,
                        }
                    }
                }
                if dependent.is_some() {
                    // the element must exist: subscripts 0..10 of the undimensioned array
                    match vals.first() {
                        Some(V::I(k)) if (0..=10).contains(k) => {}
                        _ => return None,
                    }
                }
                Some(vals)
            })();
            match ok {
                Some(vals) => {
                    finals = vals;
                    done = true;
                    break;
                }
                None => {
                    interesting = true;
                    want.push_str("?REDO FROM START\n");
                }
            }
        }
        if done {
            want.push_str("OK\nREADY.\n<STOPPED>");
        } else {
            // script exhausted: the harness interrupts the pending prompt
            want.push_str(&format!("<INPUT {:?} caps={}>", expect_prompt, !comma));
        }
        let text = format!("{}\n{}", stmt, replies[..used].iter().map(|r| format!("reply {:?}", r)).collect::<Vec<_>>().join("\n"));
        mon::journal(&text);
        let mut s = Session::new();
        s.drain(8);
        // one case in five: the statement is line 10 of a program, and at one of the prompts a break arrives
        // instead of the reply; CONT must show the same prompt again and the replies go on from there
        let as_program = rng.chance(1, 5);
        let break_at = if as_program && rng.chance(2, 3) { Some(rng.usize(used.max(1))) } else { None };
        let text = if as_program { format!("10 {}\nRUN{}", text, break_at.map(|k| format!("\n(break instead of reply {}, then CONT)", k + 1)).unwrap_or_default()) } else { text };
        if as_program {
            s.command(&format!("10 {}", stmt), 16);
        }
        let mark = s.mark();
        s.enter(if as_program { "RUN" } else { &stmt });
        let mut fed = 0;
        let mut stopped = false;
        let mut got = String::new();
        let mut seg = mark;
        for _ in 0..200 {
            match s.drain(64) {
                Stop::Input(..) => {
                    if break_at == Some(fed) && seg == mark {
                        got.push_str(&transcript(s.events_since(seg), Norm::STD));
                        let m2 = s.mark();
                        s.interrupt();
                        let st = s.drain(64);
                        let brk = transcript(s.events_since(m2), Norm::STD);
                        s.enter("CONT");
                        seg = s.mark();
                        let again = s.drain(64);
                        let t2 = transcript(s.events_since(seg), Norm::STD);
                        let marker = format!("<INPUT {:?} caps={}>", expect_prompt, !comma);
                        ctx.count("prompts_broken_and_continued");
                        if st != Stop::Stopped || !brk.contains("?BREAK IN 10") || !matches!(again, Stop::Input(..)) || t2 != marker {
                            ctx.violation(
                                "prompt-not-reissued",
                                "input:break-cont",
                                &format!("{}\n break at the prompt gave {:?} ({:?}); CONT then gave {:?} ({:?}), expected the prompt {:?} again", text, brk, st, t2, again, marker),
                                &text,
                            );
                            return;
                        }
                        // the re-issued prompt stands for the one that was interrupted
                        seg = s.mark();
                    }
                    if fed < used {
                        s.enter(&replies[fed]);
                        fed += 1;
                    } else {
                        break;
                    }
                }
                Stop::Stopped => {
                    stopped = true;
                    break;
                }
                _ => break,
            }
        }
        got.push_str(&transcript(s.events_since(seg), Norm::STD));
        ctx.eval(&text, interesting);
        ctx.add("replies_entered", fed as u64);
        ctx.count(if done { "statements_completed" } else { "statements_left_pending" });
        if ctx.want_sample() && used > 1 {
            ctx.sample(&format!("{}\n--> {:?}", text, want));
        }
        if got != want || stopped != done {
            ctx.violation(
                "input-transcript",
                &format!("input:transcript:{}", if got.matches("REDO").count() != want.matches("REDO").count() { "redo-count" } else { "other" }),
                &format!("{}\n got  {:?}\n want {:?}", text, got, want),
                &text,
            );
            return;
        }
        if done {
            let pr = s.rt.verif_probe();
            ctx.count("stack_depth_after_statement_checked");
            if !pr.stack.is_empty() {
                ctx.violation(
                    "stack-residue",
                    "input:stack-residue",
                    &format!("{}\n the statement completed but {} value(s) are left on the stack: {:?}", text, pr.stack.len(), pr.stack),
                    &text,
                );
                return;
            }
            for (vi, ((_, key, ty), w)) in vars.iter().zip(finals.iter()).enumerate() {
                if dependent == Some(vi) {
                    let k = match finals.first() {
                        Some(V::I(k)) => *k,
                        _ => 0,
                    };
                    let want_key = format!("{},{},{}", key, k, key);
                    let got_v = pr.vars.iter().find(|(kk, _)| *kk == want_key).and_then(|(_, v)| from_val(v)).unwrap_or_else(|| V::zero(*ty));
                    let others = pr.vars.iter().filter(|(kk, _)| kk.starts_with(&format!("{},", key)) && *kk != want_key).count();
                    ctx.count("dependent_subscript_targets_checked");
                    // (elements set by fields of earlier, rejected replies are not judged: the property fixes
                    // when the statement continues, not that a rejected reply leaves no trace)
                    let _ = others;
                    if got_v.ty() != *ty || !mv::same(w, &got_v, mv::Tol::Exact) {
                        ctx.violation(
                            "stored-element",
                            "input:stored-element",
                            &format!("{}\n element {}({}) holds {} (other elements set: {}), the reply converts to {}", text, key, k, got_v.show(), others, w.show()),
                            &text,
                        );
                        return;
                    }
                    continue;
                }
                // probe key of an array element: NAME(2) -> stored under "NAME,2"-like keys; match by prefix + value
                let base = key.split('(').next().unwrap_or(key);
                let found: Vec<V> = pr
                    .vars
                    .iter()
                    .filter(|(k, _)| k == key || (key.contains('(') && k.starts_with(base) && k != base))
                    .filter_map(|(_, v)| from_val(v))
                    .collect();
                let got_v = found.first().cloned().unwrap_or_else(|| V::zero(*ty));
                ctx.count("stored_values_checked");
                if got_v.ty() != *ty || !mv::same(w, &got_v, mv::Tol::Exact) {
                    ctx.violation(
                        "stored-value",
                        &format!("input:stored:{:?}", ty),
                        &format!("{}\n variable {} holds {} but the reply converts to {}", text, key, got_v.show(), w.show()),
                        &text,
                    );
                    return;
                }
            }
        }
    }
}
