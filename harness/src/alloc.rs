//! Counting global allocator: live bytes, high-water mark and allocation count of the whole
//! worker process. It remembers no addresses (so it hides nothing from memcheck / Miri) and
//! changes no behaviour; monitors read the counters at quiescent points.

use std::alloc::{GlobalAlloc, Layout, System};
use std::sync::atomic::{AtomicU64, AtomicUsize, Ordering};

pub struct Counting;

static LIVE: AtomicUsize = AtomicUsize::new(0);
static PEAK: AtomicUsize = AtomicUsize::new(0);
static ALLOCS: AtomicU64 = AtomicU64::new(0);

#[inline]
fn grow(n: usize) {
    let live = LIVE.fetch_add(n, Ordering::Relaxed) + n;
    // racy max is fine: the only other thread is the watchdog, which allocates a few bytes
    if live > PEAK.load(Ordering::Relaxed) {
        PEAK.store(live, Ordering::Relaxed);
    }
    ALLOCS.fetch_add(1, Ordering::Relaxed);
}

unsafe impl GlobalAlloc for Counting {
    unsafe fn alloc(&self, l: Layout) -> *mut u8 {
        let p = System.alloc(l);
        if !p.is_null() {
            grow(l.size());
        }
        p
    }
    unsafe fn dealloc(&self, p: *mut u8, l: Layout) {
        System.dealloc(p, l);
        LIVE.fetch_sub(l.size(), Ordering::Relaxed);
    }
    unsafe fn alloc_zeroed(&self, l: Layout) -> *mut u8 {
        let p = System.alloc_zeroed(l);
        if !p.is_null() {
            grow(l.size());
        }
        p
    }
    unsafe fn realloc(&self, p: *mut u8, l: Layout, new: usize) -> *mut u8 {
        let q = System.realloc(p, l, new);
        if !q.is_null() {
            if new >= l.size() {
                grow(new - l.size());
            } else {
                LIVE.fetch_sub(l.size() - new, Ordering::Relaxed);
            }
        }
        q
    }
}

pub fn live() -> usize {
    LIVE.load(Ordering::Relaxed)
}

pub fn peak() -> usize {
    PEAK.load(Ordering::Relaxed)
}

pub fn reset_peak() {
    PEAK.store(LIVE.load(Ordering::Relaxed), Ordering::Relaxed);
}

pub fn allocs() -> u64 {
    ALLOCS.load(Ordering::Relaxed)
}
