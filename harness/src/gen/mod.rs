//! Program generator (own AST), renderer with spelling/layout options, and the reference
//! interpreter that runs the AST statement by statement as the manual prescribes
//! (DESIGN.md Appendix A). Programs are structured so that they terminate.

use crate::rng::Rng;
use std::collections::BTreeMap;

pub const VARS: [&str; 8] = ["A", "B", "C", "D", "P", "Q", "X1", "ZZ"];
pub const LOOPV: [&str; 6] = ["I", "J", "K", "L", "M", "N"];
pub const WHILEV: [&str; 4] = ["W1", "W2", "W3", "W4"];
pub const FNS: [&str; 3] = ["FNA", "FNB", "FNC"];
/// (the first parameter is a Double: parameters of every type are local)
pub const PARAMS: [&str; 3] = ["X#", "Y", "A"];
/// array names: two are also FN parameter names, one is also a scalar
pub const ARRS: [&str; 4] = ["X", "A", "T1", "Y"];
pub const SVARS: [&str; 3] = ["A$", "S$", "T9$"];
/// Marker variable of the stack-shape monitor (never used by generated code itself).
pub const MARKER: &str = "Z9";
/// Pass counter of looped programs.
pub const PASSES: &str = "Z8";

#[derive(Clone, Debug, PartialEq)]
pub enum SE {
    Lit(String),
    Var(String),
    Cat(Box<SE>, Box<SE>),
    Left(Box<SE>, i64),
    Right(Box<SE>, i64),
    /// MID$(s, position >= 1 [, length])
    Mid(Box<SE>, i64, Option<i64>),
    /// STR$(numeric expression)
    Str(Box<E>),
}

#[derive(Clone, Debug, PartialEq)]
pub enum E {
    /// LEN(s)
    Len(Box<SE>),
    /// string comparison, yields -1 / 0
    SCmp(Box<SE>, &'static str, Box<SE>),
    /// INSTR(s, non-empty literal)
    Instr(Box<SE>, String),
    N(i64),
    /// n/4 written as a decimal literal (0.25, 2.5, ...)
    Q(i64),
    /// a literal in exponent or radix form: canonical (upper-case) text and its exact value
    Lit(&'static str, f64),
    V(String),
    Bin(Box<E>, &'static str, Box<E>),
    Neg(Box<E>),
    Fn(usize, Vec<E>),
    /// element of a one-dimensional array (never DIMed: bounds 0..10), subscript expression
    A(String, Box<E>),
}

#[derive(Clone, Debug, PartialEq)]
pub enum Item {
    S(String),
    E(E),
    /// a string expression
    X(SE),
}

/// One DATA constant.
#[derive(Clone, Debug, PartialEq)]
pub enum Datum {
    N(i64),
    S(String),
}

#[derive(Clone, Debug, PartialEq)]
pub enum St {
    Print(Vec<Item>, bool),
    Let(String, E, bool),
    /// assignment to an array element: name, subscript, value
    LetA(String, E, E),
    /// SWAP of two numeric l-values (scalars or array elements with constant subscripts)
    Swap(String, String),
    /// ERASE of one array
    Erase(String),
    /// MID$(v$, pos[, len]) = string expression
    MidS(String, i64, Option<i64>, SE),
    /// string assignment
    LetS(String, SE),
    Goto(usize),
    Gosub(usize),
    Return,
    On(E, bool, Vec<usize>),
    If(E, Vec<St>, Option<Vec<St>>),
    For(String, E, E, Option<E>),
    Next(Vec<String>),
    While(E),
    Wend,
    End,
    Stop,
    Rem(String, bool),
    Read(Vec<String>),
    Data(Vec<Datum>),
    Restore(Option<usize>),
    Def(usize, Vec<String>, E),
    Tron,
    Troff,
    /// INPUT [,]["prompt";] vars  (prompt, leading comma = caps off, numeric variables)
    Input(Option<String>, bool, Vec<String>),
    /// K$=INKEY$ (the driver answers with no key)
    Inkey,
    /// raw command text with `{}` placeholders for line-number operands (never executed by the model)
    Cmd(&'static str, Vec<usize>),
}

/// A line: label id (resolved to a line number by `number`) and its statements.
#[derive(Clone, Debug, PartialEq)]
pub struct Line {
    pub label: usize,
    pub sts: Vec<St>,
}

#[derive(Clone, Debug)]
pub struct Prog {
    pub lines: Vec<Line>,
    /// label -> line number
    pub nums: BTreeMap<usize, u16>,
    /// replies typed at INPUT prompts, in order
    pub replies: Vec<String>,
}

#[derive(Clone, Copy)]
pub struct Opts {
    pub data: bool,
    pub func: bool,
    pub tron: bool,
    pub stop: bool,
    pub max_lines: usize,
    /// INPUT statements (the program then carries a reply script)
    pub input: bool,
    /// fractional (dyadic) constants, `/2`, raw numeric IF / WHILE predicates, fractional STEP
    pub frac: bool,
    /// string variables, literals, concatenation, LEFT$/RIGHT$/MID$/STR$/LEN/INSTR, string DATA and INPUT
    pub strings: bool,
    /// numeric array elements (arrays called like scalars and like FN parameters) with constant and computed subscripts
    pub arrays: bool,
}

impl Opts {
    pub const NONE: Opts = Opts { data: false, func: false, tron: false, stop: false, max_lines: 40, input: false, frac: false, strings: false, arrays: false };
}

struct G<'a> {
    rng: &'a mut Rng,
    o: Opts,
    next_label: usize,
    loopv: usize,
    whilev: usize,
    nsubs: usize,
    sub_labels: Vec<usize>,
    nfn: usize,
    fn_arity: Vec<usize>,
    budget: i64,
    input_arity: usize,
    /// which INPUT positions are string variables
    input_str: Vec<bool>,
}

impl<'a> G<'a> {
    fn label(&mut self) -> usize {
        self.next_label += 1;
        self.next_label
    }

    fn var(&mut self) -> String {
        VARS[self.rng.usize(5)].to_string()
    }

    /// numeric target of READ / INPUT / SWAP: a scalar, or (with arrays) an element with a constant subscript
    fn target(&mut self, computed: bool) -> String {
        if self.o.arrays && self.rng.chance(1, 4) {
            let name = *self.rng.pick(&ARRS);
            if computed && self.rng.chance(1, 3) {
                return format!("{}({})", name, self.var());
            }
            // (constant subscripts stay within the default bounds: what INPUT does with a target that does not
            // exist is not the reference interpreter's business)
            return format!("{}({})", name, self.rng.range(0, 10));
        }
        self.var()
    }

    fn svar(&mut self) -> String {
        SVARS[self.rng.usize(SVARS.len())].to_string()
    }

    fn sexpr(&mut self, depth: usize) -> SE {
        if depth == 0 || self.rng.chance(1, 2) {
            return if self.rng.coin() {
                SE::Var(self.svar())
            } else {
                SE::Lit(self.rng.pick(&["", "A", "HI", "é→", "x y", "12", "GOTO", "b,c"]).to_string())
            };
        }
        match self.rng.usize(6) {
            0 | 1 => SE::Cat(Box::new(self.sexpr(depth - 1)), Box::new(self.sexpr(depth - 1))),
            2 => SE::Left(Box::new(self.sexpr(depth - 1)), self.rng.range(0, 4)),
            3 => SE::Right(Box::new(self.sexpr(depth - 1)), self.rng.range(0, 4)),
            4 => SE::Mid(Box::new(self.sexpr(depth - 1)), self.rng.range(1, 4), if self.rng.coin() { Some(self.rng.range(0, 3)) } else { None }),
            _ => SE::Str(Box::new(self.expr(1, &[]))),
        }
    }

    fn atom(&mut self, params: &[String]) -> E {
        if !params.is_empty() && self.rng.chance(1, 2) {
            return E::V(self.rng.pick(params).clone());
        }
        if self.o.strings && params.is_empty() && self.rng.chance(1, 8) {
            return match self.rng.usize(3) {
                0 => E::Len(Box::new(self.sexpr(1))),
                1 => {
                    let op = *self.rng.pick(&["<", "=", "<>", ">", "<=", ">="]);
                    E::SCmp(Box::new(self.sexpr(1)), op, Box::new(self.sexpr(1)))
                }
                _ => E::Instr(Box::new(self.sexpr(1)), self.rng.pick(&["A", "I", "é", "x ", "12"]).to_string()),
            };
        }
        if self.o.arrays && self.rng.chance(1, 7) {
            let name = self.rng.pick(&ARRS).to_string();
            let idx = self.index(params);
            return E::A(name, Box::new(idx));
        }
        if self.o.frac && self.rng.chance(1, 6) {
            return E::Q(*self.rng.pick(&[1i64, 2, 3, 5, 6, 10, -2, 1, 2]));
        }
        if self.o.frac && self.rng.chance(1, 10) {
            let (t, v) = *self.rng.pick(&[
                ("1E1", 10.0), ("2D0", 2.0), ("25E-1", 2.5), ("5E-1", 0.5), ("75D-2", 0.75), ("1D1", 10.0), ("15E-1", 1.5), ("3E0", 3.0),
                ("&H1F", 31.0), ("&17", 15.0), ("&HA", 10.0), ("&10", 8.0), ("&HC", 12.0), ("2E+0", 2.0), ("1.5D+1", 15.0), ("4!", 4.0), ("6#", 6.0), ("7%", 7.0),
            ]);
            return E::Lit(t, v);
        }
        if self.o.func && params.is_empty() && self.rng.chance(1, 10) {
            // a program variable called like a parameter of the functions
            return E::V(self.rng.pick(&PARAMS[..2]).to_string());
        }
        match self.rng.usize(5) {
            0 | 1 => E::N(self.rng.range(0, 9)),
            2 => E::N(self.rng.range(-3, 20)),
            _ => E::V(self.var()),
        }
    }

    /// subscript of an array element: mostly in range
    fn index(&mut self, params: &[String]) -> E {
        let v = if !params.is_empty() && self.rng.coin() { E::V(self.rng.pick(params).clone()) } else { E::V(self.var()) };
        match self.rng.usize(8) {
            0..=3 => E::N(self.rng.range(0, 11)),
            4 => v,
            5 => E::N(*self.rng.pick(&[11i64, -1, 10, 0])),
            _ => E::Bin(Box::new(v), "MOD", Box::new(E::N(11))),
        }
    }

    fn expr(&mut self, depth: usize, params: &[String]) -> E {
        if depth == 0 || self.rng.chance(2, 5) {
            return self.atom(params);
        }
        match self.rng.usize(9) {
            0 | 1 => E::Bin(Box::new(self.expr(depth - 1, params)), "+", Box::new(self.expr(depth - 1, params))),
            2 => E::Bin(Box::new(self.expr(depth - 1, params)), "-", Box::new(self.expr(depth - 1, params))),
            3 => E::Bin(Box::new(self.expr(depth - 1, params)), "*", Box::new(E::N(self.rng.range(0, 4)))),
            4 | 5 => E::Bin(
                Box::new(self.expr(depth - 1, params)),
                "MOD",
                Box::new(E::N(self.rng.range(2, 7))),
            ),
            6 => {
                // unary minus of a variable that is still 0 gives -0, which the model does not judge:
                // mostly negate non-zero constants, sometimes a variable
                let a = self.atom(params);
                match a {
                    E::N(0) | E::Q(0) => E::N(self.rng.range(1, 9)),
                    E::V(_) if !self.rng.chance(1, 4) => E::Bin(Box::new(E::N(0)), "-", Box::new(a)),
                    _ => E::Neg(Box::new(a)),
                }
            }
            8 if self.o.frac => E::Bin(Box::new(self.expr(depth - 1, params)), "/", Box::new(E::N(*self.rng.pick(&[2i64, 4])))),
            7 if self.o.func && self.nfn > 0 && depth >= 1 => {
                let k = self.rng.usize(self.nfn);
                let n = self.fn_arity[k];
                let args = (0..n).map(|_| self.expr(depth - 1, params)).collect();
                E::Fn(k, args)
            }
            _ => self.cond(params),
        }
    }

    /// predicate of IF / WHILE: mostly a comparison, with `frac` also a raw number
    fn pred(&mut self) -> E {
        if self.o.frac && self.rng.chance(1, 4) {
            return match self.rng.usize(4) {
                0 => E::V(self.var()),
                1 => E::Q(*self.rng.pick(&[1i64, 2, 3, 0, -1, 4])),
                2 => E::Bin(Box::new(E::V(self.var())), "/", Box::new(E::N(4))),
                _ => E::Bin(Box::new(E::V(self.var())), "-", Box::new(E::Q(*self.rng.pick(&[2i64, 6, 1])))),
            };
        }
        self.cond(&[])
    }

    fn cond(&mut self, params: &[String]) -> E {
        let ops = ["<", "=", "<>", ">", "<=", ">="];
        let op = *self.rng.pick(&ops);
        E::Bin(Box::new(self.atom(params)), op, Box::new(self.atom(params)))
    }

    fn print(&mut self) -> St {
        let n = if self.rng.chance(1, 4) { self.rng.range(3, 5) } else { self.rng.range(1, 3) };
        let mut items = vec![];
        for _ in 0..n {
            if self.o.strings && self.rng.chance(1, 4) {
                items.push(Item::X(self.sexpr(2)));
            } else if self.rng.chance(1, 2) {
                let words = ["A", "HI", "x", "=", "<>", "GO", "Z9", "é", ".", "#"];
                items.push(Item::S(self.rng.pick(&words).to_string()));
            } else {
                items.push(Item::E(self.expr(2, &[])));
            }
        }
        St::Print(items, self.rng.chance(1, 3))
    }

    fn assign(&mut self) -> St {
        let v = self.var();
        let e = self.expr(2, &[]);
        // keep values small: most assignments reduce modulo something
        let e = if self.rng.chance(3, 4) {
            E::Bin(Box::new(e), "MOD", Box::new(E::N(self.rng.range(3, 11))))
        } else {
            e
        };
        if self.o.arrays && self.rng.chance(1, 5) {
            let name = self.rng.pick(&ARRS).to_string();
            let idx = self.index(&[]);
            return St::LetA(name, idx, e);
        }
        if self.o.arrays && self.rng.chance(1, 12) {
            let (a, b) = (self.target(false), self.target(false));
            return St::Swap(a, b);
        }
        if self.o.arrays && self.rng.chance(1, 40) {
            return St::Erase(self.rng.pick(&ARRS).to_string());
        }
        let v = if self.o.func && self.rng.chance(1, 10) { self.rng.pick(&PARAMS[..2]).to_string() } else { v };
        St::Let(v, e, self.rng.chance(1, 5))
    }

    fn simple(&mut self) -> St {
        if self.o.strings && self.rng.chance(1, 5) {
            let v = self.svar();
            if self.rng.chance(1, 4) {
                let len = if self.rng.coin() { Some(self.rng.range(0, 3)) } else { None };
                return St::MidS(v, self.rng.range(1, 3), len, self.sexpr(1));
            }
            return St::LetS(v, self.sexpr(2));
        }
        match self.rng.usize(6) {
            0 | 1 | 2 => self.print(),
            _ => self.assign(),
        }
    }

    /// Statements for one line; `fwd` are labels that may be jumped to (all lie ahead).
    fn line_sts(&mut self, fwd: &[usize], in_sub: bool, sub_from: usize) -> Vec<St> {
        let mut v = vec![];
        let n = self.rng.range(1, 3);
        for _ in 0..n {
            v.push(self.simple());
        }
        match self.rng.usize(12) {
            0 | 1 => {
                let then = self.arm(fwd, in_sub, sub_from);
                let dangling = matches!(then.last(), Some(St::If(_, _, None)));
                let mut then = then;
                let mut els = if !dangling && self.rng.chance(1, 2) { Some(self.arm(fwd, in_sub, sub_from)) } else { None };
                if self.o.data && self.rng.chance(1, 10) {
                    // DATA as the last statement of the last arm: its constants belong to the pool whether or not
                    // the arm is ever executed
                    let d = St::Data(vec![Datum::N(self.rng.range(0, 99)), Datum::N(self.rng.range(-9, 9))]);
                    let last = match els.as_mut() {
                        Some(e) => e,
                        None => &mut then,
                    };
                    if !matches!(last.last(), Some(St::If(..)) | Some(St::Rem(..))) {
                        last.push(d);
                    }
                }
                let c = self.pred();
                v.push(St::If(c, then, els));
            }
            2 if !fwd.is_empty() => v.push(St::Goto(*self.rng.pick(fwd))),
            3 if sub_from < self.nsubs => {
                let k = sub_from + self.rng.usize(self.nsubs - sub_from);
                v.push(St::Gosub(self.sub_labels[k]));
                if self.rng.coin() {
                    v.push(self.simple());
                }
            }
            4 if !fwd.is_empty() => {
                let n = self.rng.range(1, 3) as usize;
                let t = (0..n).map(|_| *self.rng.pick(fwd)).collect();
                v.push(St::On(self.sel(), false, t));
            }
            5 if sub_from < self.nsubs => {
                let n = self.rng.range(1, 3) as usize;
                let t = (0..n)
                    .map(|_| self.sub_labels[sub_from + self.rng.usize(self.nsubs - sub_from)])
                    .collect();
                v.push(St::On(self.sel(), true, t));
                if self.rng.coin() {
                    v.push(self.simple());
                }
            }
            6 if self.o.data => {
                let n = self.rng.range(1, 5) as usize;
                v.push(St::Read((0..n).map(|_| if self.o.strings && self.rng.chance(1, 3) { self.svar() } else { self.target(true) }).collect()));
            }
            7 | 8 if self.o.input => {
                let kinds = self.input_str.clone();
                let vars = kinds.iter().map(|is_s| if *is_s { self.svar() } else { self.target(false) }).collect();
                let prompt = match self.rng.usize(3) {
                    0 => None,
                    1 => Some("N".to_string()),
                    _ => Some("how many, é".to_string()),
                };
                let at = self.rng.usize(v.len() + 1);
                v.insert(at, St::Input(prompt, self.rng.chance(1, 4), vars));
            }
            9 if self.o.input && self.rng.chance(1, 2) => {
                let at = self.rng.usize(v.len() + 1);
                v.insert(at, St::Inkey);
            }
            _ => {}
        }
        v
    }

    fn sel(&mut self) -> E {
        if self.rng.chance(1, 12) {
            return E::N(self.rng.range(-1, 0));
        }
        if self.o.frac && self.rng.chance(1, 5) {
            // fractional, large and barely negative selectors (floored; negative is an error)
            return match self.rng.usize(4) {
                0 => E::Q(*self.rng.pick(&[6i64, 10, 3, 2, 5, 9, -1, -2])),
                1 => E::N(*self.rng.pick(&[255i64, 256, 300, 3, 4])),
                2 => E::Bin(Box::new(E::V(self.var())), "/", Box::new(E::N(2))),
                _ => E::Bin(Box::new(E::Bin(Box::new(E::V(self.var())), "MOD", Box::new(E::N(3)))), "+", Box::new(E::Q(2))),
            };
        }
        E::Bin(Box::new(E::V(self.var())), "MOD", Box::new(E::N(self.rng.range(2, 5))))
    }

    fn arm(&mut self, fwd: &[usize], in_sub: bool, sub_from: usize) -> Vec<St> {
        let mut v = vec![];
        match self.rng.usize(8) {
            0 if !fwd.is_empty() => v.push(St::Goto(*self.rng.pick(fwd))),
            1 if in_sub => {
                v.push(self.simple());
                v.push(St::Return)
            }
            2 if sub_from < self.nsubs => {
                let k = sub_from + self.rng.usize(self.nsubs - sub_from);
                if self.rng.coin() {
                    v.push(self.simple());
                }
                v.push(St::Gosub(self.sub_labels[k]));
                // the call may be the last thing in the arm (what follows is the other arm / the next line)
                if self.rng.coin() {
                    v.push(self.simple());
                }
            }
            5 if !fwd.is_empty() => {
                // ON..GOTO / ON..GOSUB as the last statement of an arm, selector in and out of range
                let n = self.rng.range(1, 2) as usize;
                if sub_from < self.nsubs && self.rng.coin() {
                    let t = (0..n).map(|_| self.sub_labels[sub_from + self.rng.usize(self.nsubs - sub_from)]).collect();
                    v.push(St::On(self.sel(), true, t));
                } else {
                    let t = (0..n).map(|_| *self.rng.pick(fwd)).collect();
                    v.push(St::On(self.sel(), false, t));
                }
            }
            3 if self.o.stop && !in_sub && self.rng.chance(1, 4) => {
                v.push(self.simple());
                v.push(if self.rng.coin() { St::End } else { St::Stop });
            }
            4 => {
                // nested IF: ELSE binds to the innermost
                let t = vec![self.simple()];
                let e = if self.rng.coin() { Some(vec![self.simple()]) } else { None };
                let c = self.pred();
                v.push(St::If(c, t, e));
            }
            _ => {
                v.push(self.simple());
                if self.rng.coin() {
                    v.push(self.simple());
                }
            }
        }
        v
    }

    /// A block of lines. `exits`: labels after enclosing constructs that may be jumped to.
    fn block(&mut self, out: &mut Vec<Line>, depth: usize, n_items: usize, exits: &[usize], in_sub: bool, sub_from: usize) {
        // labels of the items of this block are allocated first so that forward jumps can name them
        let labels: Vec<usize> = (0..n_items + 1).map(|_| self.label()).collect();
        let mut done_items = 0;
        for i in 0..n_items {
            if self.budget <= 0 {
                break;
            }
            done_items = i + 1;
            self.budget -= 1;
            let mut fwd: Vec<usize> = labels[i + 1..].to_vec();
            fwd.extend_from_slice(exits);
            let kind = self.rng.usize(10);
            if kind == 0 && depth > 0 && self.loopv + 1 < LOOPV.len() && self.rng.chance(1, 4) {
                // two loops closed by one NEXT with a list
                let v1 = LOOPV[self.loopv].to_string();
                let v2 = LOOPV[self.loopv + 1].to_string();
                self.loopv += 2;
                out.push(Line { label: labels[i], sts: vec![St::For(v1.clone(), E::N(1), E::N(self.rng.range(1, 3)), None)] });
                let l2 = self.label();
                out.push(Line {
                    label: l2,
                    sts: vec![St::For(v2.clone(), E::N(self.rng.range(0, 2)), E::N(self.rng.range(1, 3)), if self.rng.coin() { Some(E::N(1)) } else { None })],
                });
                let after = labels[i + 1];
                let mut ex = vec![after];
                ex.extend_from_slice(exits);
                let n = self.rng.range(1, 2) as usize;
                self.block(out, depth - 1, n, &ex, in_sub, sub_from);
                let l = self.label();
                out.push(Line { label: l, sts: vec![St::Next(vec![v2, v1])] });
            } else if kind == 0 && depth > 0 && self.loopv < LOOPV.len() {
                let v = LOOPV[self.loopv].to_string();
                self.loopv += 1;
                let (a, b, s) = match if self.o.frac && self.rng.chance(1, 4) { 9 } else { self.rng.usize(4) } {
                    9 => (E::N(self.rng.range(0, 2)), E::Q(self.rng.range(2, 9)), Some(E::Q(*self.rng.pick(&[2i64, 3, 1, 6])))),
                    // limit and step written in terms of the loop variable: it has its start value by then
                    // (x is evaluated and assigned, then y, then z)
                    3 if self.rng.coin() => (
                        E::N(self.rng.range(1, 2)),
                        E::Bin(Box::new(E::V(v.clone())), "+", Box::new(E::N(self.rng.range(0, 3)))),
                        if self.rng.coin() { Some(E::V(v.clone())) } else { None },
                    ),
                    0 => (E::N(self.rng.range(0, 3)), E::N(self.rng.range(0, 5)), None),
                    1 => (E::N(self.rng.range(3, 6)), E::N(self.rng.range(0, 3)), Some(E::N(-self.rng.range(1, 2)))),
                    2 => (
                        E::Bin(Box::new(E::V(self.var())), "MOD", Box::new(E::N(3))),
                        E::N(self.rng.range(1, 4)),
                        Some(E::N(self.rng.range(1, 3))),
                    ),
                    _ => (E::N(1), E::Bin(Box::new(E::V(self.var())), "MOD", Box::new(E::N(4))), None),
                };
                let mut sts = vec![St::For(v.clone(), a, b, s)];
                if self.rng.chance(1, 3) {
                    sts.push(self.simple());
                }
                out.push(Line { label: labels[i], sts });
                let after = labels[i + 1];
                let mut ex = vec![after];
                ex.extend_from_slice(exits);
                let n = self.rng.range(1, 3) as usize;
                self.block(out, depth - 1, n, &ex, in_sub, sub_from);
                let l = self.label();
                let nx = match self.rng.usize(3) {
                    0 => vec![],
                    _ => vec![v],
                };
                let mut sts = vec![St::Next(nx)];
                if self.rng.chance(1, 4) {
                    sts.push(self.simple());
                }
                out.push(Line { label: l, sts });
            } else if kind == 1 && depth > 0 && self.whilev < WHILEV.len() {
                let w = WHILEV[self.whilev].to_string();
                self.whilev += 1;
                let lim = self.rng.range(0, 3);
                out.push(Line {
                    label: labels[i],
                    sts: vec![
                        St::Let(w.clone(), E::N(0), false),
                        St::While(E::Bin(Box::new(E::V(w.clone())), "<", Box::new(E::N(lim)))),
                    ],
                });
                let after = labels[i + 1];
                let mut ex = vec![after];
                ex.extend_from_slice(exits);
                let n = self.rng.range(1, 3) as usize;
                // the counter is advanced first so that no jump can skip the increment
                let l0 = self.label();
                out.push(Line {
                    label: l0,
                    sts: vec![St::Let(w.clone(), E::Bin(Box::new(E::V(w.clone())), "+", Box::new(E::N(1))), false)],
                });
                // jumps inside the body stay inside the body or leave the loop
                self.block(out, depth - 1, n, &ex[..1], in_sub, sub_from);
                let l = self.label();
                out.push(Line { label: l, sts: vec![St::Wend] });
            } else if kind == 2 && self.o.data {
                let n = self.rng.range(1, 4);
                out.push(Line {
                    label: labels[i],
                    sts: vec![St::Data(
                        (0..n)
                            .map(|_| {
                                if self.o.strings && self.rng.chance(1, 3) {
                                    Datum::S(self.rng.pick(&["", "DATA", "a,b", "é", "5"]).to_string())
                                } else {
                                    Datum::N(self.rng.range(-9, 99))
                                }
                            })
                            .collect(),
                    )],
                });
            } else if kind == 3 && self.o.data {
                let l = if self.rng.coin() { None } else { Some(usize::MAX) };
                out.push(Line { label: labels[i], sts: vec![St::Restore(l), self.simple()] });
            } else if kind == 5 && self.o.func && self.nfn > 0 && self.rng.chance(1, 2) {
                // a function defined again: calls made after this line executes use the new body
                let k = self.rng.usize(self.nfn);
                let ar = if self.rng.chance(1, 4) { self.rng.range(1, 3) as usize } else { self.fn_arity[k] };
                let ps: Vec<String> = PARAMS[..ar].iter().map(|s| s.to_string()).collect();
                let saved = self.nfn;
                self.nfn = k; // the new body may call the functions defined before this one
                let body = self.expr(2, &ps);
                self.nfn = saved;
                self.fn_arity[k] = ar;
                let mut sts = vec![St::Def(k, ps.clone(), body)];
                if self.rng.chance(1, 3) {
                    let pv = self.rng.pick(&ps).clone();
                    sts.push(St::Print(vec![Item::E(E::V(pv)), Item::E(self.expr(2, &[]))], false));
                }
                out.push(Line { label: labels[i], sts });
            } else if kind == 4 && self.rng.chance(1, 3) {
                out.push(Line { label: labels[i], sts: vec![St::Rem("note: GOTO 10".into(), self.rng.coin())] });
            } else {
                let sts = self.line_sts(&fwd, in_sub, sub_from);
                out.push(Line { label: labels[i], sts });
            }
        }
        // the block's end marker (target of jumps past the last item)
        for l in &labels[done_items..] {
            out.push(Line { label: *l, sts: vec![St::Rem(String::new(), false)] });
        }
    }
}

pub fn generate(rng: &mut Rng, o: Opts) -> Prog {
    let nsubs = rng.usize(4);
    let mut g = G {
        rng,
        o,
        next_label: 0,
        loopv: 0,
        whilev: 0,
        nsubs,
        sub_labels: vec![],
        nfn: 0,
        fn_arity: vec![],
        budget: o.max_lines as i64 / 2,
        input_arity: 1,
        input_str: vec![],
    };
    g.input_arity = g.rng.range(1, 2) as usize;
    g.input_str = (0..g.input_arity).map(|_| o.strings && g.rng.chance(1, 3)).collect();
    for _ in 0..nsubs {
        let l = g.label();
        g.sub_labels.push(l);
    }
    let mut lines: Vec<Line> = vec![];
    if o.tron {
        let l = g.label();
        // TRON with more statements behind it on the same line: the line it is on is not announced
        let mut sts = vec![St::Tron];
        if g.rng.coin() {
            sts.push(g.simple());
        }
        lines.push(Line { label: l, sts });
    }
    if o.func {
        let nf = g.rng.range(1, 3) as usize;
        for k in 0..nf {
            let ar = g.rng.range(1, 3) as usize;
            let ps: Vec<String> = PARAMS[..ar].iter().map(|s| s.to_string()).collect();
            // a function may call the ones defined before it
            g.nfn = k;
            let body = g.expr(3, &ps);
            g.fn_arity.push(ar);
            let l = g.label();
            let mut sts = vec![St::Def(k, ps.clone(), body)];
            if g.rng.chance(1, 3) {
                // more statements behind the DEF on its line: the parameter names mean the program's own
                // variables again
                g.nfn = k + 1;
                let pv = g.rng.pick(&ps).clone();
                let e = g.expr(1, &[]);
                sts.push(St::Let(pv.clone(), E::Bin(Box::new(e), "MOD", Box::new(E::N(7))), false));
                sts.push(St::Print(vec![Item::E(E::V(pv.clone())), Item::E(g.expr(2, &[])), Item::E(E::V(pv))], false));
            }
            lines.push(Line { label: l, sts });
        }
        g.nfn = nf;
    }
    // layout: main then subroutines (main must end in END), or `GOTO main`, subroutines, main --
    // then the main part is the end of the program and may fall off it in several ways
    let subs_first = g.rng.chance(2, 5);
    let mut main: Vec<Line> = vec![];
    let mut subs: Vec<Line> = vec![];
    let n = g.rng.range(2, 7) as usize;
    g.block(&mut main, 2, n, &[], false, 0);
    let l = g.label();
    let tail = if subs_first { g.rng.usize(9) } else { 0 };
    match tail {
        8 => {
            // the last statement that makes code is END; behind it only lines without code, the last one a DATA
            // line, and a jump from the main part lands on it (the program then runs off its end)
            let l_data = g.label();
            main.push(Line { label: l, sts: vec![St::If(g.cond(&[]), vec![St::Goto(l_data)], None)] });
            let l2 = g.label();
            main.push(Line { label: l2, sts: vec![g.print(), St::End] });
            if g.rng.coin() {
                let l3 = g.label();
                main.push(Line { label: l3, sts: vec![St::Rem(String::new(), g.rng.coin())] });
            }
            main.push(Line { label: l_data, sts: vec![St::Data(vec![Datum::N(5), Datum::N(6)])] });
        }
        6 if !main.is_empty() => {
            // the program ends in ON..GOTO: the first time round it jumps back to the start of the main
            // part, the second time the selector is out of range and the program runs off its end
            let back = main[0].label;
            main.push(Line { label: l, sts: vec![St::Let("Z7".into(), E::Bin(Box::new(E::V("Z7".into())), "+", Box::new(E::N(1))), false)] });
            let l2 = g.label();
            let sel = if g.rng.coin() { E::V("Z7".into()) } else { E::Bin(Box::new(E::V("Z7".into())), "*", Box::new(E::N(2))) };
            main.push(Line { label: l2, sts: vec![St::On(sel, false, vec![back, back])] });
        }
        7 if nsubs > 0 => {
            // the program ends in ON..GOSUB with a selector that is often out of range
            let sel = E::Bin(Box::new(E::V(g.var())), "MOD", Box::new(E::N(3)));
            let targets: Vec<usize> = (0..g.rng.range(1, 3)).map(|_| g.sub_labels[g.rng.usize(nsubs)]).collect();
            main.push(Line { label: l, sts: vec![g.print(), St::On(sel, true, targets)] });
        }
        0 => main.push(Line { label: l, sts: vec![g.print(), St::End] }),
        1 => main.push(Line { label: l, sts: vec![g.print()] }),
        2 => main.push(Line { label: l, sts: vec![St::If(g.cond(&[]), vec![St::End], None)] }),
        3 => main.push(Line { label: l, sts: vec![St::If(g.cond(&[]), vec![g.print()], Some(vec![St::End]))] }),
        4 => main.push(Line { label: l, sts: vec![g.print(), St::If(g.cond(&[]), vec![St::End], Some(vec![g.print()]))] }),
        _ => {
            if g.o.stop {
                main.push(Line { label: l, sts: vec![St::If(g.cond(&[]), vec![St::Stop], None)] })
            } else {
                main.push(Line { label: l, sts: vec![g.simple()] })
            }
        }
    }
    for k in 0..nsubs {
        let lbl = g.sub_labels[k];
        subs.push(Line { label: lbl, sts: vec![g.simple()] });
        let n = g.rng.range(1, 3) as usize;
        g.budget = g.budget.max(3);
        g.block(&mut subs, 1, n, &[], true, k + 1);
        let l = g.label();
        subs.push(Line { label: l, sts: vec![St::Return] });
    }
    if subs_first {
        let main_l = g.label();
        lines.push(Line { label: g.label(), sts: vec![St::Goto(main_l)] });
        lines.append(&mut subs);
        lines.push(Line { label: main_l, sts: vec![St::Rem(String::new(), false)] });
        lines.append(&mut main);
    } else {
        lines.append(&mut main);
        lines.append(&mut subs);
    }
    let mut replies: Vec<String> = vec![];
    if o.input {
        for _ in 0..14 {
            let field = |r: &mut Rng| -> String {
                match r.usize(10) {
                    0 => String::new(),
                    1 => format!(" {} ", r.range(0, 9)),
                    2 => "2.5".to_string(),
                    3 => format!("-{}", r.range(1, 9)),
                    4 => ".25".to_string(),
                    _ => r.range(0, 12).to_string(),
                }
            };
            let sfield = |r: &mut Rng| -> String { r.pick(&["HELLO", " padded ", "\"q,r\"", "", "é→", "\"  keep \"", "12", "a\"b"]).to_string() };
            let kinds = g.input_str.clone();
            let good: Vec<String> = kinds.iter().map(|is_s| if *is_s { sfield(g.rng) } else { field(g.rng) }).collect();
            let r = match g.rng.usize(9) {
                0 => "x".to_string(),
                1 => format!("{},7", good.join(",")),
                2 if g.input_arity > 1 => good[0].clone(),
                3 => "1 2".to_string(),
                _ => good.join(","),
            };
            replies.push(r);
        }
    }
    let mut p = Prog { lines, nums: BTreeMap::new(), replies };
    let start = g.rng.range(1, 30) as u16;
    let step = *g.rng.pick(&[1u16, 2, 5, 10, 10, 10, 17, 100]);
    p.number(start, step);
    // RESTORE n: pick real lines now that labels exist
    let labels: Vec<usize> = p.lines.iter().map(|l| l.label).collect();
    for line in p.lines.iter_mut() {
        for st in line.sts.iter_mut() {
            if let St::Restore(Some(l)) = st {
                if *l == usize::MAX {
                    *l = labels[g.rng.usize(labels.len())];
                }
            }
        }
    }
    p
}

/// Turns a generated program into a looped, marked one for the stack-shape monitor (C18):
/// `Z9=Z9+1` markers at the start of random lines, a head line (RESTORE) in front, and the final
/// END replaced by `Z8=Z8+1:IF Z8<passes THEN GOTO head ELSE END`. Returns false when the program
/// has no top-level END to replace.
pub fn loop_and_mark(p: &mut Prog, rng: &mut Rng, passes: i64) -> bool {
    let bump = |v: &str| St::Let(v.to_string(), E::Bin(Box::new(E::V(v.to_string())), "+", Box::new(E::N(1))), false);
    let ei = match p.lines.iter().position(|l| matches!(l.sts.last(), Some(St::End))) {
        Some(i) => i,
        None => return false,
    };
    for l in p.lines.iter_mut() {
        if rng.chance(1, 2) {
            l.sts.insert(0, bump(MARKER));
        }
    }
    let head = 900_000usize;
    let l = &mut p.lines[ei];
    l.sts.pop();
    l.sts.push(bump(MARKER));
    l.sts.push(bump(PASSES));
    l.sts.push(St::If(
        E::Bin(Box::new(E::V(PASSES.to_string())), "<", Box::new(E::N(passes))),
        vec![St::Goto(head)],
        Some(vec![St::End]),
    ));
    p.lines.insert(0, Line { label: head, sts: vec![bump(MARKER), St::Restore(None)] });
    p.number(10, 10);
    true
}

impl Prog {
    pub fn number(&mut self, start: u16, step: u16) {
        self.nums.clear();
        let mut n = start;
        for l in &self.lines {
            self.nums.insert(l.label, n);
            n = n.saturating_add(step);
        }
    }

    pub fn num(&self, label: usize) -> u16 {
        *self.nums.get(&label).unwrap_or(&0)
    }
}

// ------------------------------------------------------------------------------------------
// Rendering

#[derive(Clone, Copy, Default)]
pub struct Spell {
    /// 0 = canonical; otherwise a seed for random spelling choices
    pub seed: u64,
}

pub struct Render<'a> {
    pub p: &'a Prog,
    rng: Option<Rng>,
    /// write `THEN n` / `ELSE n` for a lone GOTO arm
    pub then_short: bool,
}

impl<'a> Render<'a> {
    pub fn new(p: &'a Prog, spell: Spell) -> Render<'a> {
        Render { p, rng: if spell.seed == 0 { None } else { Some(Rng::new(spell.seed)) }, then_short: false }
    }

    fn ch(&mut self, n: u64) -> u64 {
        match self.rng.as_mut() {
            Some(r) => r.below(n),
            None => 0,
        }
    }

    /// keyword / identifier in random case
    fn w(&mut self, s: &str) -> String {
        match self.ch(3) {
            0 => s.to_string(),
            1 => s.to_lowercase(),
            _ => {
                let mut o = String::new();
                for c in s.chars() {
                    if self.ch(2) == 0 {
                        o.push(c.to_ascii_lowercase())
                    } else {
                        o.push(c)
                    }
                }
                o
            }
        }
    }

    /// optional blank(s)
    fn sp(&mut self) -> &'static str {
        match self.ch(4) {
            0 => " ",
            1 => "",
            2 => "  ",
            _ => " ",
        }
    }

    /// blank that may be dropped only when spelling variants are on
    fn osp(&mut self) -> &'static str {
        if self.rng.is_none() {
            return " ";
        }
        self.sp()
    }

    pub fn sexpr(&mut self, e: &SE) -> String {
        match e {
            SE::Lit(t) => format!("\"{}\"", t),
            SE::Var(v) => self.w(v),
            SE::Cat(a, b) => {
                let (x, y) = (self.sexpr(a), self.sexpr(b));
                let sp = if self.rng.is_some() { self.sp() } else { "" };
                format!("{}{}+{}", x, sp, y)
            }
            SE::Left(a, n) => format!("{}({},{})", self.w("LEFT$"), self.sexpr(a), n),
            SE::Right(a, n) => format!("{}({},{})", self.w("RIGHT$"), self.sexpr(a), n),
            SE::Mid(a, p, None) => format!("{}({},{})", self.w("MID$"), self.sexpr(a), p),
            SE::Mid(a, p, Some(n)) => format!("{}({},{},{})", self.w("MID$"), self.sexpr(a), p, n),
            SE::Str(x) => format!("{}({})", self.w("STR$"), self.expr(x, 0)),
        }
    }

    pub fn expr(&mut self, e: &E, parent: u8) -> String {
        match e {
            E::Len(a) => format!("{}({})", self.w("LEN"), self.sexpr(a)),
            E::Instr(a, t) => format!("{}({},\"{}\")", self.w("INSTR"), self.sexpr(a), t),
            E::SCmp(a, op, b) => {
                let s = format!("{}{}{}", self.sexpr(a), op, self.sexpr(b));
                if 7 < parent {
                    format!("({})", s)
                } else {
                    s
                }
            }
            E::N(n) => {
                if *n < 0 {
                    format!("({})", n)
                } else {
                    n.to_string()
                }
            }
            E::Q(n) => {
                let t = format!("{}", (*n as f64 / 4.0).abs());
                // `.5` or `0.5`: a property of the literal, not of the spelling (listings keep literals as typed)
                let t = if n.rem_euclid(3) == 1 { t.trim_start_matches('0').to_string() } else { t };
                let t = if t.is_empty() || t == "." { "0".to_string() } else { t };
                if *n < 0 {
                    format!("(-{})", t)
                } else {
                    t
                }
            }
            E::Lit(t, _) => self.w(t),
            E::V(v) => self.w(v),
            E::A(v, i) => {
                let n = self.w(v);
                let sp = if self.ch(5) == 0 { " " } else { "" };
                format!("{}{}({})", n, sp, self.expr(i, 0))
            }
            E::Neg(x) => {
                let s = format!("-{}", self.expr(x, 12));
                if parent > 0 {
                    format!("({})", s)
                } else {
                    s
                }
            }
            E::Fn(k, args) => {
                let mut s = self.w(FNS[*k]);
                if !args.is_empty() {
                    s.push('(');
                    for (i, a) in args.iter().enumerate() {
                        if i > 0 {
                            s.push(',');
                        }
                        s.push_str(&self.expr(a, 0));
                    }
                    s.push(')');
                }
                s
            }
            E::Bin(l, op, r) => {
                let lvl = level(op);
                let ls = self.expr(l, lvl);
                let rs = self.expr(r, lvl + 1);
                let ops: String = match *op {
                    "MOD" => format!(" {} ", self.w("MOD")),
                    "<=" => match self.ch(6) {
                        1 => "=<".into(),
                        2 => "< =".into(),
                        3 => "= <".into(),
                        4 => "<  =".into(),
                        _ => "<=".into(),
                    },
                    ">=" => match self.ch(6) {
                        1 => "=>".into(),
                        2 => "> =".into(),
                        3 => "= >".into(),
                        4 => "=  >".into(),
                        _ => ">=".into(),
                    },
                    "<>" => match self.ch(4) {
                        2 => "< >".into(),
                        _ => "<>".into(),
                    },
                    o => o.to_string(),
                };
                let s = if *op == "MOD" { format!("{}{}{}", ls, ops, rs) } else {
                    let a = if self.rng.is_some() { self.sp() } else { "" };
                    let b = if self.rng.is_some() { self.sp() } else { "" };
                    format!("{}{}{}{}{}", ls, a, ops, b, rs)
                };
                if lvl < parent {
                    format!("({})", s)
                } else {
                    s
                }
            }
        }
    }

    fn sts(&mut self, v: &[St]) -> String {
        let mut parts = vec![];
        for s in v {
            parts.push(self.st(s));
        }
        let sep = if self.rng.is_some() && self.ch(2) == 0 { " : " } else { ":" };
        parts.join(sep)
    }

    pub fn st(&mut self, s: &St) -> String {
        match s {
            St::Print(items, semi) => {
                let mut o = if self.ch(3) == 1 { "?".to_string() } else { self.w("PRINT") };
                let mut first = true;
                for it in items {
                    if first {
                        o.push_str(self.osp());
                    } else {
                        o.push(';');
                    }
                    first = false;
                    match it {
                        Item::S(t) => o.push_str(&format!("\"{}\"", t)),
                        Item::E(e) => o.push_str(&self.expr(e, 0)),
                        Item::X(x) => o.push_str(&self.sexpr(x)),
                    }
                }
                if *semi {
                    o.push(';');
                }
                o
            }
            St::Let(v, e, lt) => {
                let es = self.expr(e, 0);
                let vs = self.w(v);
                if *lt {
                    format!("{} {}={}", self.w("LET"), vs, es)
                } else {
                    format!("{}={}", vs, es)
                }
            }
            St::LetA(v, i, e) => {
                let es = self.expr(e, 0);
                let is = self.expr(i, 0);
                format!("{}({})={}", self.w(v), is, es)
            }
            St::Swap(a, b) => {
                let (x, y) = (self.w(a), self.w(b));
                format!("{} {},{}", self.w("SWAP"), x, y)
            }
            St::Erase(a) => format!("{} {}", self.w("ERASE"), self.w(a)),
            St::MidS(v, p, l, e) => {
                let es = self.sexpr(e);
                match l {
                    Some(l) => format!("{}({},{},{})={}", self.w("MID$"), self.w(v), p, l, es),
                    None => format!("{}({},{})={}", self.w("MID$"), self.w(v), p, es),
                }
            }
            St::LetS(v, e) => {
                let es = self.sexpr(e);
                format!("{}={}", self.w(v), es)
            }
            St::Goto(l) => {
                let n = self.p.num(*l);
                if self.ch(3) == 1 {
                    format!("{} {} {}", self.w("GO"), self.w("TO"), n)
                } else {
                    format!("{}{}{}", self.w("GOTO"), self.osp(), n)
                }
            }
            St::Gosub(l) => {
                let n = self.p.num(*l);
                if self.ch(3) == 1 {
                    format!("{} {} {}", self.w("GO"), self.w("SUB"), n)
                } else {
                    format!("{}{}{}", self.w("GOSUB"), self.osp(), n)
                }
            }
            St::Return => self.w("RETURN"),
            St::On(e, sub, ls) => {
                let nums: Vec<String> = ls.iter().map(|l| self.p.num(*l).to_string()).collect();
                let es = self.expr(e, 0);
                format!(
                    "{} {} {} {}",
                    self.w("ON"),
                    es,
                    if *sub { self.w("GOSUB") } else { self.w("GOTO") },
                    nums.join(",")
                )
            }
            St::If(c, t, e) => {
                let cs = self.expr(c, 0);
                let mut o = format!("{} {} {} {}", self.w("IF"), cs, self.w("THEN"), self.arm(t));
                if let Some(e) = e {
                    o.push_str(&format!(" {} {}", self.w("ELSE"), self.arm(e)));
                }
                o
            }
            St::For(v, a, b, s) => {
                let (a, b) = (self.expr(a, 0), self.expr(b, 0));
                let mut o = format!("{} {}={} {} {}", self.w("FOR"), self.w(v), a, self.w("TO"), b);
                if let Some(s) = s {
                    let ss = self.expr(s, 0);
                    o.push_str(&format!(" {} {}", self.w("STEP"), ss));
                }
                o
            }
            St::Next(vs) => {
                if vs.is_empty() {
                    self.w("NEXT")
                } else {
                    let names: Vec<String> = vs.iter().map(|v| self.w(v)).collect();
                    format!("{} {}", self.w("NEXT"), names.join(","))
                }
            }
            St::While(c) => {
                let cs = self.expr(c, 0);
                format!("{} {}", self.w("WHILE"), cs)
            }
            St::Wend => self.w("WEND"),
            St::End => self.w("END"),
            St::Stop => self.w("STOP"),
            St::Rem(t, tick) => {
                if *tick {
                    format!("'{}", t)
                } else if t.is_empty() {
                    self.w("REM")
                } else {
                    format!("{} {}", self.w("REM"), t)
                }
            }
            St::Read(vs) => {
                let names: Vec<String> = vs.iter().map(|v| self.w(v)).collect();
                format!("{} {}", self.w("READ"), names.join(","))
            }
            St::Data(ns) => {
                let v: Vec<String> = ns
                    .iter()
                    .map(|d| match d {
                        Datum::N(n) => n.to_string(),
                        Datum::S(t) => format!("\"{}\"", t),
                    })
                    .collect();
                format!("{} {}", self.w("DATA"), v.join(","))
            }
            St::Restore(l) => match l {
                Some(l) => format!("{} {}", self.w("RESTORE"), self.p.num(*l)),
                None => self.w("RESTORE"),
            },
            St::Def(k, ps, body) => {
                let b = self.expr(body, 0);
                let mut o = format!("{} {}", self.w("DEF"), self.w(FNS[*k]));
                if !ps.is_empty() {
                    o.push_str(&format!("({})", ps.join(",")));
                }
                o.push('=');
                o.push_str(&b);
                o
            }
            St::Tron => self.w("TRON"),
            St::Troff => self.w("TROFF"),
            St::Input(prompt, comma, vars) => {
                let mut o = self.w("INPUT");
                if *comma {
                    o.push(',');
                } else {
                    o.push_str(self.osp());
                }
                if let Some(p) = prompt {
                    o.push_str(&format!("\"{}\";", p));
                }
                let names: Vec<String> = vars.iter().map(|v| self.w(v)).collect();
                o.push_str(&names.join(","));
                o
            }
            St::Inkey => format!("{}={}", self.w("K$"), self.w("INKEY$")),
            St::Cmd(f, ls) => {
                let mut o = String::new();
                let mut it = ls.iter();
                let mut rest: &str = f;
                while let Some(i) = rest.find("{}") {
                    o.push_str(&rest[..i]);
                    if let Some(l) = it.next() {
                        o.push_str(&self.p.num(*l).to_string());
                    }
                    rest = &rest[i + 2..];
                }
                o.push_str(rest);
                o
            }
        }
    }

    fn arm(&mut self, v: &[St]) -> String {
        // THEN n shorthand for a lone GOTO
        if v.len() == 1 {
            if let St::Goto(l) = &v[0] {
                // `THEN n` for `THEN GOTO n` runs the same but (rightly) lists as typed
                if self.then_short {
                    return self.p.num(*l).to_string();
                }
            }
        }
        self.sts(v)
    }

    pub fn line(&mut self, l: &Line) -> String {
        let body = self.sts(&l.sts);
        // more than one blank after the number is indentation, which listings keep
        let gap = if self.rng.is_some() && self.ch(2) == 1 { "" } else { " " };
        let text = format!("{}{}{}", self.p.num(l.label), gap, body);
        if self.rng.is_some() && self.ch(3) == 0 {
            return self.crunch(&text);
        }
        text
    }

    /// "Crunched" spelling: single blanks between words are dropped wherever the result still splits
    /// into the same words by the documented rule (reserved words are recognised inside runs of
    /// letters). Conservative: a blank goes only if no reserved word other than the intended ones
    /// occurs anywhere in the joined run of letters. String literals and remarks are left alone.
    fn crunch(&mut self, text: &str) -> String {
        let c: Vec<char> = text.chars().collect();
        let mut out: Vec<char> = Vec::with_capacity(c.len());
        let mut in_str = false;
        let mut i = 0;
        let is_an = |ch: char| ch.is_ascii_alphanumeric();
        while i < c.len() {
            let ch = c[i];
            if ch == '"' {
                in_str = !in_str;
            }
            if !in_str {
                // a remark: the rest is text
                let rest: String = c[i..].iter().take(4).collect::<String>().to_ascii_uppercase();
                let at_word = out.last().map(|p| !p.is_ascii_alphabetic()).unwrap_or(true);
                if ch == '\'' || (at_word && rest.starts_with("REM") && !rest.chars().nth(3).map(|x| x.is_ascii_alphanumeric()).unwrap_or(false)) {
                    out.extend_from_slice(&c[i..]);
                    break;
                }
            }
            if !in_str && ch == ' ' && i > 0 && i + 1 < c.len() && c[i - 1] != ' ' && c[i + 1] != ' ' && self.ch(2) == 0 {
                let (l, r) = (c[i - 1], c[i + 1]);
                let ok = if is_an(l) && is_an(r) {
                    let mut a = i;
                    while a > 0 && is_an(c[a - 1]) {
                        a -= 1;
                    }
                    let mut b = i + 1;
                    while b < c.len() && is_an(c[b]) {
                        b += 1;
                    }
                    // a run that continues behind a decimal point or type suffix is not judged here
                    let bounded = (a == 0 || !matches!(c[a - 1], '.' | '$' | '%' | '!' | '#' | '&'))
                        && (b >= c.len() || !matches!(c[b], '.'));
                    let lrun: String = c[a..i].iter().collect::<String>().to_ascii_uppercase();
                    let rrun: String = c[i + 1..b].iter().collect::<String>().to_ascii_uppercase();
                    bounded && glue_ok(&lrun, &rrun)
                } else {
                    // punctuation on one side: the words cannot merge; keep apart what forms other operators
                    !matches!((l, r), ('<', '=') | ('<', '>') | ('>', '=') | ('=', '<') | ('=', '>') | ('>', '<'))
                        && !(l.is_ascii_digit() && r == '.')
                        && !(l == '.' && r.is_ascii_digit())
                        && !(matches!(l, 'E' | 'D' | 'e' | 'd') && matches!(r, '+' | '-') && i >= 2 && c[i - 2].is_ascii_digit())
                        && l != '&'
                };
                if ok {
                    i += 1;
                    continue;
                }
            }
            out.push(ch);
            i += 1;
        }
        out.into_iter().collect()
    }

    pub fn lines(&mut self) -> Vec<String> {
        let p = self.p;
        p.lines.iter().map(|l| self.line(l)).collect()
    }
}

pub const RESERVED: [&str; 49] = [
    "RESTORE", "DEFDBL", "DEFINT", "DEFSNG", "DEFSTR", "DELETE", "RETURN", "CLEAR", "ERASE", "GOSUB", "INPUT", "PRINT",
    "RENUM", "TROFF", "WHILE", "CONT", "DATA", "ELSE", "GOTO", "NEXT", "LIST", "LOAD", "READ", "SAVE", "STEP", "STOP", "SWAP",
    "THEN", "TRON", "WEND", "AND", "CLS", "DEF", "DIM", "END", "EQV", "FOR", "IMP", "LET", "MOD", "NEW", "NOT", "REM", "RUN",
    "XOR", "IF", "ON", "OR", "TO",
];

/// All (position, word) occurrences of reserved words in a run of letters.
fn occurrences(letters: &str) -> Vec<(usize, &'static str)> {
    let mut v = vec![];
    for w in RESERVED.iter() {
        let mut from = 0;
        while let Some(i) = letters[from..].find(w) {
            v.push((from + i, *w));
            from += i + 1;
        }
    }
    v.sort();
    v
}

/// May the blank between two alphanumeric runs be dropped? (both upper case)
fn glue_ok(l: &str, r: &str) -> bool {
    let digits = |s: &str| !s.is_empty() && s.chars().all(|c| c.is_ascii_digit());
    let letters_of = |s: &str| -> String { s.chars().take_while(|c| c.is_ascii_alphabetic()).collect() };
    let letters_only = |s: &str| !s.is_empty() && s.chars().all(|c| c.is_ascii_alphabetic());
    if digits(l) && digits(r) {
        return false;
    }
    if digits(l) {
        // 1TO, 3THEN, 1ELSE, 7MOD3: a reserved word must start the right run (an identifier would
        // be read as an exponent letter or merge), and the run must be nothing but that word
        let rl = letters_of(r);
        if rl.len() != r.len() && !r[rl.len()..].chars().all(|c| c.is_ascii_digit()) {
            return false;
        }
        let occ = occurrences(&rl);
        return occ.len() == 1 && occ[0].0 == 0 && occ[0].1.len() == rl.len() && rl.len() == r.len();
    }
    if !l.chars().next().map(|c| c.is_ascii_alphabetic()).unwrap_or(false) {
        return false;
    }
    if !letters_only(l) {
        // X1, W2: an identifier ends at the first letter after its digits
        let ll = letters_of(l);
        return l[ll.len()..].chars().all(|c| c.is_ascii_digit())
            && occurrences(&ll).is_empty()
            && r.chars().next().map(|c| c.is_ascii_alphabetic()).unwrap_or(false);
    }
    // left run is letters only
    let locc = occurrences(l);
    let l_is_word = locc.len() == 1 && locc[0].0 == 0 && locc[0].1.len() == l.len();
    if !(l_is_word || locc.is_empty()) {
        return false;
    }
    if digits(r) {
        // THEN10, GOTO10, TO5, MOD3 -- but A 1 would become the identifier A1
        return l_is_word;
    }
    let rl = letters_of(r);
    if rl.is_empty() {
        return false;
    }
    let rocc = occurrences(&rl);
    let r_is_word = rocc.len() == 1 && rocc[0].0 == 0 && rocc[0].1.len() == rl.len() && rl.len() == r.len();
    if !(r_is_word || rocc.is_empty()) {
        return false;
    }
    if !l_is_word && !r_is_word {
        // two identifiers would merge
        return false;
    }
    let joined = format!("{}{}", l, rl);
    let mut want: Vec<(usize, &'static str)> = locc.clone();
    for (i, w) in &rocc {
        want.push((i + l.len(), *w));
    }
    want.sort();
    occurrences(&joined) == want
}

fn level(op: &str) -> u8 {
    match op {
        "*" | "/" => 11,
        "MOD" => 9,
        "+" | "-" => 8,
        "AND" => 5,
        "OR" => 4,
        _ => 7,
    }
}

pub fn render(p: &Prog) -> Vec<String> {
    Render::new(p, Spell::default()).lines()
}

pub fn render_spelled(p: &Prog, seed: u64) -> Vec<String> {
    Render::new(p, Spell { seed: seed | 1 }).lines()
}

// ------------------------------------------------------------------------------------------
// Reference interpreter

#[derive(Clone, Debug, PartialEq)]
pub enum End {
    Normal,
    Break(u16),
    Error(&'static str, u16),
    /// the model does not specify this run (value left the exact range, step budget, ...)
    Unspec(&'static str),
}

#[derive(Clone, Debug)]
pub struct ModelRun {
    pub out: String,
    pub end: End,
    pub steps: u64,
    pub kinds: Vec<&'static str>,
    pub vars: BTreeMap<String, f64>,
    pub max_depth: usize,
    /// (open FOR frames, open GOSUB frames) each time the marker variable Z9 was assigned
    pub shape_log: Vec<(u32, u32)>,
}

enum Frame {
    For { var: String, to: f64, step: f64, resume: Pos },
    Gosub { resume: Pos },
}

/// Position: line index, then a path of (statement index, arm) into nested IFs.
#[derive(Clone, Debug, PartialEq)]
struct Pos {
    line: usize,
    path: Vec<(usize, u8)>,
    idx: usize,
}

const LIM: f64 = 16000.0;

/// Values the model stands behind: dyadic rationals with denominator <= 64 (exact in f32 and in
/// every intermediate type), magnitude <= LIM.
fn exact(v: f64) -> bool {
    v.abs() <= LIM && (v * 64.0).fract() == 0.0
}

struct M<'a> {
    p: &'a Prog,
    vars: BTreeMap<String, f64>,
    svars: BTreeMap<String, String>,
    out: String,
    rpos: usize,
    col: usize,
    stack: Vec<Frame>,
    data: Vec<(usize, Datum)>,
    dpos: usize,
    fns: BTreeMap<usize, (Vec<String>, E)>,
    tron: bool,
    traced: Option<usize>,
    whiles: Vec<(Pos, Pos)>,
    kinds: std::collections::BTreeSet<&'static str>,
    max_depth: usize,
    shape_log: Vec<(u32, u32)>,
    /// arrays that exist (auto-dimensioned by a first access) -- ERASE of another one is an error
    exists: std::cell::RefCell<std::collections::BTreeSet<String>>,
}

enum Flow {
    Next,
    Jump(Pos),
    Finish(End),
}

type R<T> = Result<T, End>;

impl<'a> M<'a> {
    fn line_of(&self, label: usize) -> Option<usize> {
        self.p.lines.iter().position(|l| l.label == label)
    }

    fn eval(&self, e: &E, env: &BTreeMap<String, f64>, depth: usize, ln: u16) -> R<f64> {
        if depth > 40 {
            return Err(End::Unspec("fn depth"));
        }
        let v: f64 = match e {
            E::Len(a) => self.seval(a, ln)?.chars().count() as f64,
            E::SCmp(a, op, b) => {
                let (x, y) = (self.seval(a, ln)?, self.seval(b, ln)?);
                let t = |c: bool| if c { -1.0 } else { 0.0 };
                match *op {
                    "<" => t(x < y),
                    "=" => t(x == y),
                    "<>" => t(x != y),
                    ">" => t(x > y),
                    "<=" => t(x <= y),
                    _ => t(x >= y),
                }
            }
            E::Instr(a, pat) => {
                let x: Vec<char> = self.seval(a, ln)?.chars().collect();
                let p: Vec<char> = pat.chars().collect();
                (0..x.len()).find(|i| x[*i..].starts_with(&p)).map(|i| i as f64 + 1.0).unwrap_or(0.0)
            }
            E::N(n) => *n as f64,
            E::Q(n) => *n as f64 / 4.0,
            E::Lit(_, v) => *v,
            E::V(v) => match env.get(v) {
                Some(x) => *x,
                None => *self.vars.get(v).unwrap_or(&0.0),
            },
            E::A(name, i) => {
                let k = self.eval(i, env, depth, ln)?.floor();
                if k >= 0.0 {
                    // (an access with a subscript that is too large has dimensioned the array all the same)
                    self.exists.borrow_mut().insert(name.clone());
                }
                if !(0.0..=10.0).contains(&k) {
                    return Err(End::Error("SUBSCRIPT OUT OF RANGE", ln));
                }
                *self.vars.get(&format!("{}({})", name, k as i64)).unwrap_or(&0.0)
            }
            E::Neg(x) => {
                let v = self.eval(x, env, depth, ln)?;
                if v == 0.0 {
                    // -0 of a Single: how it prints is not this model's business
                    return Err(End::Unspec("negative zero"));
                }
                -v
            }
            E::Fn(k, args) => {
                let (ps, body) = match self.fns.get(k) {
                    Some(f) => f.clone(),
                    None => return Err(End::Error("UNDEFINED USER FUNCTION", ln)),
                };
                let mut vals = vec![];
                for a in args {
                    vals.push(self.eval(a, env, depth, ln)?);
                }
                if vals.len() != ps.len() {
                    return Err(End::Error("ILLEGAL FUNCTION CALL", ln));
                }
                let mut inner = BTreeMap::new();
                for (p, v) in ps.iter().zip(vals) {
                    inner.insert(p.clone(), v);
                }
                match self.eval(&body, &inner, depth + 1, ln) {
                    // which line an error raised inside a function body belongs to is not documented
                    Err(End::Error(..)) => return Err(End::Unspec("error inside FN body")),
                    other => other?,
                }
            }
            E::Bin(l, op, r) => {
                let a = self.eval(l, env, depth, ln)?;
                let b = self.eval(r, env, depth, ln)?;
                let t = |c: bool| if c { -1.0 } else { 0.0 };
                match *op {
                    "+" => a + b,
                    "-" => a - b,
                    "*" => {
                        if a * b == 0.0 && (a < 0.0 || b < 0.0) {
                            return Err(End::Unspec("negative zero"));
                        }
                        a * b
                    }
                    "/" => {
                        if b == 0.0 {
                            return Err(End::Unspec("division"));
                        }
                        if a == 0.0 && b < 0.0 {
                            return Err(End::Unspec("negative zero"));
                        }
                        a / b
                    }
                    "MOD" => {
                        // both operands are floor-converted to Integers first
                        let (ai, bi) = (a.floor() as i64, b.floor() as i64);
                        if bi == 0 {
                            return Err(End::Error("DIVISION BY ZERO", ln));
                        }
                        (ai % bi) as f64
                    }
                    "<" => t(a < b),
                    "=" => t(a == b),
                    "<>" => t(a != b),
                    ">" => t(a > b),
                    "<=" => t(a <= b),
                    ">=" => t(a >= b),
                    _ => return Err(End::Unspec("op")),
                }
            }
        };
        if !exact(v) {
            return Err(End::Unspec("magnitude"));
        }
        Ok(v)
    }

    /// Key of a numeric target in the variable map: `NAME`, or `NAME(k)` for an element whose subscript is a
    /// constant or a scalar variable.
    fn target_key(&self, v: &str, ln: u16) -> R<String> {
        match v.find('(') {
            None => Ok(v.to_string()),
            Some(i) => {
                let inner = &v[i + 1..v.len() - 1];
                let k = match inner.parse::<i64>() {
                    Ok(k) => k as f64,
                    Err(_) => *self.vars.get(inner).unwrap_or(&0.0),
                }
                .floor();
                if k >= 0.0 {
                    self.exists.borrow_mut().insert(v[..i].to_string());
                }
                if !(0.0..=10.0).contains(&k) {
                    return Err(End::Error("SUBSCRIPT OUT OF RANGE", ln));
                }
                Ok(format!("{}({})", &v[..i], k as i64))
            }
        }
    }

    fn seval(&self, e: &SE, ln: u16) -> R<String> {
        let none = BTreeMap::new();
        let take = |s: &str, from: usize, n: usize| -> String { s.chars().skip(from).take(n).collect() };
        let r = match e {
            SE::Lit(t) => t.clone(),
            SE::Var(v) => self.svars.get(v).cloned().unwrap_or_default(),
            SE::Cat(a, b) => format!("{}{}", self.seval(a, ln)?, self.seval(b, ln)?),
            SE::Left(a, n) => take(&self.seval(a, ln)?, 0, *n as usize),
            SE::Right(a, n) => {
                let t = self.seval(a, ln)?;
                let len = t.chars().count();
                take(&t, len.saturating_sub(*n as usize), len)
            }
            SE::Mid(a, p, n) => {
                let t = self.seval(a, ln)?;
                take(&t, (*p as usize).saturating_sub(1), n.map(|x| x as usize).unwrap_or(usize::MAX))
            }
            SE::Str(x) => {
                let v = self.eval(x, &none, 0, ln)?;
                let t = Self::numstr(v);
                t[..t.len() - 1].to_string()
            }
        };
        if r.chars().count() > 4000 {
            return Err(End::Unspec("string size"));
        }
        Ok(r)
    }

    fn emit(&mut self, s: &str) {
        for c in s.chars() {
            if c == '\n' {
                self.col = 0
            } else {
                self.col += 1
            }
        }
        self.out.push_str(s);
    }

    fn sts_at<'b>(&'b self, pos: &Pos) -> &'b [St] {
        let mut v: &[St] = &self.p.lines[pos.line].sts;
        for (i, arm) in &pos.path {
            if let St::If(_, t, e) = &v[*i] {
                v = if *arm == 0 { t } else { e.as_ref().map(|x| x.as_slice()).unwrap_or(&[]) };
            }
        }
        v
    }

    /// All WHILE/WEND positions in source order, paired like brackets.
    fn pair_whiles(&mut self) {
        fn walk(v: &[St], line: usize, path: &mut Vec<(usize, u8)>, acc: &mut Vec<(bool, Pos)>) {
            for (i, s) in v.iter().enumerate() {
                match s {
                    St::While(_) => acc.push((true, Pos { line, path: path.clone(), idx: i })),
                    St::Wend => acc.push((false, Pos { line, path: path.clone(), idx: i })),
                    St::If(_, t, e) => {
                        path.push((i, 0));
                        walk(t, line, path, acc);
                        path.pop();
                        if let Some(e) = e {
                            path.push((i, 1));
                            walk(e, line, path, acc);
                            path.pop();
                        }
                    }
                    _ => {}
                }
            }
        }
        let mut acc = vec![];
        for (li, l) in self.p.lines.iter().enumerate() {
            walk(&l.sts, li, &mut vec![], &mut acc);
        }
        let mut open: Vec<Pos> = vec![];
        for (is_while, pos) in acc {
            if is_while {
                open.push(pos)
            } else if let Some(w) = open.pop() {
                self.whiles.push((w, pos));
            }
        }
    }

    fn after(&self, pos: &Pos) -> Pos {
        Pos { line: pos.line, path: pos.path.clone(), idx: pos.idx + 1 }
    }

    fn start_of(&self, line: usize) -> Pos {
        Pos { line, path: vec![], idx: 0 }
    }

    fn jump(&self, label: usize, ln: u16) -> R<Pos> {
        match self.line_of(label) {
            Some(l) => Ok(self.start_of(l)),
            None => Err(End::Error("UNDEFINED LINE", ln)),
        }
    }

    fn numstr(n: f64) -> String {
        // exact dyadic values: the shortest decimal is the exact one
        let t = if n.fract() == 0.0 { format!("{}", n.abs() as i64) } else { format!("{}", n.abs() as f32) };
        if n < 0.0 {
            format!("-{} ", t)
        } else {
            format!(" {} ", t)
        }
    }

    fn exec(&mut self, pos: &Pos, st: &St) -> R<Flow> {
        let ln = self.p.num(self.p.lines[pos.line].label);
        let none = BTreeMap::new();
        let makes_code = !matches!(st, St::Rem(..) | St::Data(..));
        if self.tron && makes_code && self.traced != Some(pos.line) {
            self.traced = Some(pos.line);
            self.emit(&format!("[{}]", ln));
        }
        match st {
            St::Print(items, semi) => {
                self.kinds.insert("PRINT");
                for it in items {
                    match it {
                        Item::S(s) => self.emit(&s.clone()),
                        Item::E(e) => {
                            let v = self.eval(e, &none, 0, ln)?;
                            self.emit(&Self::numstr(v));
                        }
                        Item::X(x) => {
                            let t = self.seval(x, ln)?;
                            self.emit(&t);
                        }
                    }
                }
                if !*semi {
                    self.emit("\n");
                }
            }
            St::Let(v, e, _) => {
                self.kinds.insert("LET");
                let x = self.eval(e, &none, 0, ln)?;
                self.vars.insert(v.clone(), x);
                if v == MARKER {
                    let f = self.stack.iter().filter(|f| matches!(f, Frame::For { .. })).count() as u32;
                    self.shape_log.push((f, self.stack.len() as u32 - f));
                }
            }
            St::LetA(name, i, e) => {
                self.kinds.insert("LET-array");
                let x = self.eval(e, &none, 0, ln);
                let k = self.eval(i, &none, 0, ln);
                let (x, k) = match (x, k) {
                    (Ok(x), Ok(k)) => (x, k.floor()),
                    // which of two different errors is reported first is not documented
                    (Err(End::Error(a, _)), Err(End::Error(b, _))) if a != b => return Err(End::Unspec("two errors in one assignment")),
                    (Err(End::Unspec(u)), _) | (_, Err(End::Unspec(u))) => return Err(End::Unspec(u)),
                    (Err(e), _) | (_, Err(e)) => return Err(e),
                };
                if k >= 0.0 {
                    self.exists.borrow_mut().insert(name.clone());
                }
                if !(0.0..=10.0).contains(&k) {
                    return Err(End::Error("SUBSCRIPT OUT OF RANGE", ln));
                }
                self.vars.insert(format!("{}({})", name, k as i64), x);
            }
            St::Erase(a) => {
                self.kinds.insert("ERASE");
                if !self.exists.borrow_mut().remove(a) {
                    return Err(End::Error("ILLEGAL FUNCTION CALL", ln));
                }
                let prefix = format!("{}(", a);
                self.vars.retain(|k, _| !k.starts_with(&prefix));
            }
            St::MidS(v, p, l, e) => {
                self.kinds.insert("MID$=");
                let t: Vec<char> = self.seval(e, ln)?.chars().collect();
                let mut cur: Vec<char> = self.svars.get(v).cloned().unwrap_or_default().chars().collect();
                if *p as usize > cur.len() {
                    return Err(End::Unspec("MID$ assignment behind the end of the string"));
                }
                let lim = l.map(|l| l as usize).unwrap_or(usize::MAX);
                for (k, c) in t.iter().enumerate() {
                    if k >= lim || *p as usize - 1 + k >= cur.len() {
                        break;
                    }
                    cur[*p as usize - 1 + k] = *c;
                }
                self.svars.insert(v.clone(), cur.into_iter().collect());
            }
            St::Swap(a, b) => {
                self.kinds.insert("SWAP");
                let (ka, kb) = (self.target_key(a, ln)?, self.target_key(b, ln)?);
                let (x, y) = (*self.vars.get(&ka).unwrap_or(&0.0), *self.vars.get(&kb).unwrap_or(&0.0));
                self.vars.insert(ka, y);
                self.vars.insert(kb, x);
            }
            St::LetS(v, e) => {
                self.kinds.insert("LET$");
                let t = self.seval(e, ln)?;
                if t.chars().count() > 255 {
                    return Err(End::Error("STRING TOO LONG", ln));
                }
                self.svars.insert(v.clone(), t);
            }
            St::Goto(l) => {
                self.kinds.insert("GOTO");
                return Ok(Flow::Jump(self.jump(*l, ln)?));
            }
            St::Gosub(l) => {
                self.kinds.insert("GOSUB");
                let t = self.jump(*l, ln)?;
                self.stack.push(Frame::Gosub { resume: self.after(pos) });
                return Ok(Flow::Jump(t));
            }
            St::Return => {
                self.kinds.insert("RETURN");
                loop {
                    match self.stack.pop() {
                        None => return Err(End::Error("RETURN WITHOUT GOSUB", ln)),
                        Some(Frame::Gosub { resume }) => return Ok(Flow::Jump(resume)),
                        Some(Frame::For { .. }) => {
                            self.kinds.insert("RETURN-discards-FOR");
                        }
                    }
                }
            }
            St::On(e, sub, ls) => {
                let k = self.eval(e, &none, 0, ln)?.floor() as i64;
                if k < 0 {
                    return Err(End::Error("ILLEGAL FUNCTION CALL", ln));
                }
                if k >= 1 && (k as usize) <= ls.len() {
                    let t = self.jump(ls[k as usize - 1], ln)?;
                    if *sub {
                        self.kinds.insert("ON-GOSUB-taken");
                        self.stack.push(Frame::Gosub { resume: self.after(pos) });
                    } else {
                        self.kinds.insert("ON-GOTO-taken");
                    }
                    return Ok(Flow::Jump(t));
                }
                self.kinds.insert(if *sub { "ON-GOSUB-out-of-range" } else { "ON-GOTO-out-of-range" });
            }
            St::If(c, _t, e) => {
                let v = self.eval(c, &none, 0, ln)?;
                let mut path = pos.path.clone();
                if v != 0.0 {
                    self.kinds.insert("IF-then");
                    path.push((pos.idx, 0));
                    return Ok(Flow::Jump(Pos { line: pos.line, path, idx: 0 }));
                } else if e.is_some() {
                    self.kinds.insert("IF-else");
                    path.push((pos.idx, 1));
                    return Ok(Flow::Jump(Pos { line: pos.line, path, idx: 0 }));
                } else {
                    self.kinds.insert("IF-false");
                    // rest of the line is skipped
                    return Ok(Flow::Jump(Pos { line: pos.line + 1, path: vec![], idx: 0 }));
                }
            }
            St::For(v, a, b, s) => {
                self.kinds.insert("FOR");
                let x = self.eval(a, &none, 0, ln)?;
                self.vars.insert(v.clone(), x);
                let to = self.eval(b, &none, 0, ln)?;
                let step = match s {
                    Some(s) => self.eval(s, &none, 0, ln)?,
                    None => 1.0,
                };
                self.stack.push(Frame::For { var: v.clone(), to, step, resume: self.after(pos) });
            }
            St::Next(names) => {
                let list: Vec<Option<String>> =
                    if names.is_empty() { vec![None] } else { names.iter().map(|n| Some(n.clone())).collect() };
                for want in list {
                    loop {
                        match self.stack.pop() {
                            None | Some(Frame::Gosub { .. }) => return Err(End::Error("NEXT WITHOUT FOR", ln)),
                            Some(Frame::For { var, to, step, resume }) => {
                                if let Some(w) = &want {
                                    if *w != var {
                                        self.kinds.insert("NEXT-discards-inner-frame");
                                        continue;
                                    }
                                }
                                let x = self.vars.get(&var).copied().unwrap_or(0.0) + step;
                                if !exact(x) {
                                    return Err(End::Unspec("magnitude"));
                                }
                                self.vars.insert(var.clone(), x);
                                let done = if step < 0.0 { x < to } else { x > to };
                                if done {
                                    self.kinds.insert("NEXT-exit");
                                    break;
                                }
                                self.kinds.insert("NEXT-loop");
                                let r = resume.clone();
                                self.stack.push(Frame::For { var, to, step, resume });
                                return Ok(Flow::Jump(r));
                            }
                        }
                    }
                }
            }
            St::While(c) => {
                let v = self.eval(c, &none, 0, ln)?;
                if v == 0.0 {
                    self.kinds.insert("WHILE-exit");
                    for (w, e) in &self.whiles {
                        if w == pos {
                            return Ok(Flow::Jump(self.after(e)));
                        }
                    }
                    return Err(End::Unspec("unpaired while"));
                }
                self.kinds.insert("WHILE-enter");
            }
            St::Wend => {
                self.kinds.insert("WEND");
                for (w, e) in &self.whiles {
                    if e == pos {
                        return Ok(Flow::Jump(w.clone()));
                    }
                }
                return Err(End::Unspec("unpaired wend"));
            }
            St::End => {
                self.kinds.insert("END");
                return Ok(Flow::Finish(End::Normal));
            }
            St::Stop => {
                self.kinds.insert("STOP");
                return Ok(Flow::Finish(End::Break(ln)));
            }
            St::Rem(..) => {
                // the rest of the line is remark text
                return Ok(Flow::Jump(self.start_of(pos.line + 1)));
            }
            St::Data(_) => {}
            St::Read(vs) => {
                self.kinds.insert("READ");
                for v in vs {
                    if self.dpos >= self.data.len() {
                        return Err(End::Error("OUT OF DATA", ln));
                    }
                    let d = self.data[self.dpos].1.clone();
                    self.dpos += 1;
                    if !v.ends_with('$') && matches!(d, Datum::S(_)) && self.target_key(v, ln).is_err() {
                        // wrong kind of constant for an element that does not exist: which error comes first is open
                        return Err(End::Unspec("two errors in one READ target"));
                    }
                    match (v.ends_with('$'), d) {
                        (false, Datum::N(x)) => {
                            // the subscript of an element is worked out when its turn comes (earlier targets of
                            // the same list have their new values by then)
                            let key = self.target_key(v, ln)?;
                            self.vars.insert(key, x as f64);
                        }
                        (true, Datum::S(t)) => {
                            self.kinds.insert("READ$");
                            self.svars.insert(v.clone(), t);
                        }
                        _ => return Err(End::Error("TYPE MISMATCH", ln)),
                    }
                }
            }
            St::Restore(l) => match l {
                None => {
                    self.kinds.insert("RESTORE");
                    self.dpos = 0
                }
                Some(l) => {
                    self.kinds.insert("RESTORE-n");
                    let li = match self.line_of(*l) {
                        Some(x) => x,
                        None => return Err(End::Error("UNDEFINED LINE", ln)),
                    };
                    self.dpos = self.data.iter().position(|(dl, _)| *dl >= li).unwrap_or(self.data.len());
                }
            },
            St::Def(k, ps, body) => {
                self.kinds.insert("DEF");
                self.fns.insert(*k, (ps.clone(), body.clone()));
            }
            St::Tron => {
                self.tron = true;
                self.traced = Some(pos.line);
            }
            St::Troff => self.tron = false,
            St::Input(prompt, comma, vars) => {
                self.kinds.insert("INPUT");
                loop {
                    let shown = format!("{}? ", prompt.clone().unwrap_or_default());
                    self.out.push_str(&format!("<INPUT {:?} caps={}>", shown, !*comma));
                    self.col = 0;
                    let reply = match self.p.replies.get(self.rpos) {
                        Some(r) => r.clone(),
                        None => return Err(End::Unspec("replies")),
                    };
                    self.rpos += 1;
                    let fields: Vec<String> = if vars.len() == 1 {
                        vec![reply.clone()]
                    } else {
                        // commas inside double quotes do not separate
                        let mut out = vec![];
                        let mut cur = String::new();
                        let mut q = false;
                        for c in reply.chars() {
                            match c {
                                '"' => {
                                    q = !q;
                                    cur.push(c);
                                }
                                ',' if !q => out.push(std::mem::take(&mut cur)),
                                _ => cur.push(c),
                            }
                        }
                        out.push(cur);
                        out
                    };
                    enum Fv {
                        N(f64),
                        S(String),
                    }
                    let mut vals: Vec<Fv> = vec![];
                    let mut ok = fields.len() == vars.len();
                    if ok {
                        for (f, v) in fields.iter().zip(vars.iter()) {
                            let f = f.trim();
                            if v.ends_with('$') {
                                let t = if f.chars().count() >= 2 && f.starts_with('"') && f.ends_with('"') { &f[1..f.len() - 1] } else { f };
                                vals.push(Fv::S(t.to_string()));
                            } else if f.is_empty() {
                                vals.push(Fv::N(0.0));
                            } else if f.chars().all(|c| c.is_ascii_digit() || c == '.' || c == '-') {
                                match f.parse::<f64>() {
                                    Ok(x) if exact(x) && !(x == 0.0 && f.starts_with('-')) => vals.push(Fv::N(x)),
                                    _ => return Err(End::Unspec("reply")),
                                }
                            } else {
                                ok = false;
                                break;
                            }
                        }
                    }
                    // fields before the bad one have been assigned already when the reply is rejected
                    for (v, x) in vars.iter().zip(vals.into_iter()) {
                        match x {
                            Fv::N(n) => {
                                let key = self.target_key(v, ln)?;
                                self.vars.insert(key, n);
                            }
                            Fv::S(t) => {
                                self.svars.insert(v.clone(), t);
                            }
                        }
                    }
                    if ok {
                        self.kinds.insert("INPUT-accepted");
                        break;
                    }
                    self.kinds.insert("INPUT-redo");
                    self.out.push_str("?REDO FROM START\n");
                }
            }
            St::Inkey => {
                self.kinds.insert("INKEY$");
                self.out.push_str("<INKEY>");
            }
            St::Cmd(..) => return Err(End::Unspec("command")),
        }
        Ok(Flow::Next)
    }
}

/// A command typed at the prompt, as the reference interpreter understands it.
#[derive(Clone, Debug, PartialEq)]
pub enum Cmd {
    /// RUN / RUN n (label)
    Run(Option<usize>),
    /// GOTO n typed in direct mode: no CLEAR, open frames and variables stay
    Goto(usize),
    Tron,
    Troff,
    /// CONT after STOP or END
    Cont,
}

impl Cmd {
    pub fn text(&self, p: &Prog) -> String {
        match self {
            Cmd::Run(None) => "RUN".to_string(),
            Cmd::Run(Some(l)) => format!("RUN {}", p.num(*l)),
            Cmd::Goto(l) => format!("GOTO {}", p.num(*l)),
            Cmd::Tron => "TRON".to_string(),
            Cmd::Troff => "TROFF".to_string(),
            Cmd::Cont => "CONT".to_string(),
        }
    }
}

pub fn model_run(p: &Prog, max_steps: u64) -> ModelRun {
    model_session(p, &[Cmd::Run(None)], max_steps).pop().unwrap()
}

/// Runs a sequence of commands on one reference machine; one ModelRun (with the output of that
/// command only) per command. Stops after a run the model does not specify.
pub fn model_session(p: &Prog, cmds: &[Cmd], max_steps: u64) -> Vec<ModelRun> {
    let mut m = M {
        p,
        vars: BTreeMap::new(),
        svars: BTreeMap::new(),
        exists: Default::default(),
        out: String::new(),
        rpos: 0,
        col: 0,
        stack: vec![],
        data: vec![],
        dpos: 0,
        fns: BTreeMap::new(),
        tron: false,
        traced: None,
        whiles: vec![],
        kinds: Default::default(),
        max_depth: 0,
        shape_log: vec![],
    };
    fn collect_data(sts: &[St], li: usize, out: &mut Vec<(usize, Datum)>) {
        for s in sts {
            match s {
                St::Data(ns) => {
                    for n in ns {
                        out.push((li, n.clone()));
                    }
                }
                // DATA inside the arms of an IF is part of the pool, in source order
                St::If(_, t, e) => {
                    collect_data(t, li, out);
                    if let Some(e) = e {
                        collect_data(e, li, out);
                    }
                }
                _ => {}
            }
        }
    }
    for (li, l) in p.lines.iter().enumerate() {
        collect_data(&l.sts, li, &mut m.data);
    }
    m.pair_whiles();
    let mut runs = vec![];
    // where CONT would go on: behind the STOP / END that ended the last run
    let mut resume: Option<Pos> = None;
    let mut cont_unspec = false;
    for cmd in cmds {
        if let Cmd::Cont = cmd {
            // with TRON on, CONT announces a line again or not depending on what is left of it: not judged
            if m.tron || cont_unspec || (resume.is_none() && !runs.is_empty() && matches!(runs.last().map(|r: &ModelRun| &r.end), Some(End::Normal))) {
                // CONT after a program ran off its end, or stopped in its last line
                runs.push(ModelRun {
                    out: String::new(),
                    end: End::Unspec("CONT at the end of the program"),
                    steps: 0,
                    kinds: vec![],
                    vars: m.vars.clone(),
                    max_depth: m.max_depth,
                    shape_log: vec![],
                });
                break;
            }
        }
        if !matches!(cmd, Cmd::Tron | Cmd::Troff) {
            cont_unspec = false;
        }
        m.out.clear();
        m.col = 0;
        m.kinds.clear();
        m.shape_log.clear();
        // a direct line is not a program line: the trace starts afresh
        m.traced = None;
        let mut start_pos: Option<Pos> = None;
        if let Cmd::Cont = cmd {
            match resume.take() {
                Some(p0) => start_pos = Some(p0),
                None => {
                    m.emit("?CAN'T CONTINUE\nREADY.\n<STOPPED>");
                    runs.push(ModelRun {
                        out: m.out.clone(),
                        end: End::Error("CAN'T CONTINUE", 0),
                        steps: 0,
                        kinds: vec![],
                        vars: m.vars.clone(),
                        max_depth: m.max_depth,
                        shape_log: vec![],
                    });
                    continue;
                }
            }
        }
        let start = match cmd {
            Cmd::Cont => None,
            Cmd::Tron => {
                m.tron = true;
                None
            }
            Cmd::Troff => {
                m.tron = false;
                None
            }
            Cmd::Run(l) => {
                // RUN = CLEAR + GOTO
                m.vars.clear();
                m.svars.clear();
                m.exists.borrow_mut().clear();
                m.stack.clear();
                m.fns.clear();
                m.dpos = 0;
                Some(match l {
                    None => 0,
                    Some(l) => match m.line_of(*l) {
                        Some(i) => i,
                        None => p.lines.len(),
                    },
                })
            }
            Cmd::Goto(l) => Some(m.line_of(*l).unwrap_or(p.lines.len())),
        };
        let mut steps = 0u64;
        if !matches!(cmd, Cmd::Tron | Cmd::Troff) {
            resume = None;
        }
        let start_pos = match (start_pos, start) {
            (Some(p0), _) => Some(p0),
            (None, Some(line)) => Some(Pos { line, path: vec![], idx: 0 }),
            (None, None) => None,
        };
        let end = match start_pos {
            None => End::Normal,
            Some(p0) => {
                let mut pos = p0;
                let mut returned = false;
                loop {
                    if pos.line >= p.lines.len() {
                        if m.tron && !p.lines.is_empty() && m.traced != Some(p.lines.len() - 1) {
                            // running off the end executes the closing END, which the implementation counts
                            // as part of the last line of the listing (a trailing remark is announced, and so
                            // is the last line again after a subroutine returned to its very end): how the
                            // trace shows that is not documented
                            break End::Unspec("trace at the closing END");
                        }
                        break End::Normal;
                    }
                    let sts = m.sts_at(&pos);
                    if pos.idx >= sts.len() {
                        if returned && m.tron && !pos.path.is_empty() {
                            // a subroutine returns to the very end of an IF arm: no statement of that line is
                            // left to run; whether the line counts as entered again is not documented (the
                            // implementation announces it only when a hidden jump over an ELSE arm remains)
                            break End::Unspec("trace on return to the end of an IF arm");
                        }
                        // end of a statement list: both IF arms run to the end of the line
                        pos = m.start_of(pos.line + 1);
                        returned = false;
                        continue;
                    }
                    steps += 1;
                    if steps > max_steps {
                        break End::Unspec("steps");
                    }
                    let st = sts[pos.idx].clone();
                    m.max_depth = m.max_depth.max(m.stack.len());
                    returned = matches!(st, St::Return);
                    match m.exec(&pos, &st) {
                        Ok(Flow::Next) => pos = m.after(&pos),
                        Ok(Flow::Jump(t)) => pos = t,
                        Ok(Flow::Finish(e)) => {
                            // STOP / END: CONT goes on behind it -- unless nothing of the program is
                            // behind it (then the implementation says CAN'T CONTINUE or continues into
                            // its closing End, depending on what the last line compiles to: not judged)
                            resume = if pos.line + 1 >= p.lines.len() { None } else { Some(m.after(&pos)) };
                            if pos.line + 1 >= p.lines.len() {
                                cont_unspec = true;
                            }
                            break e;
                        }
                        Err(e) => break e,
                    }
                }
            }
        };
        // terminating condition as the terminal shows it
        match &end {
            End::Normal => {
                if m.col != 0 {
                    m.emit("\n");
                }
            }
            End::Break(l) => {
                if m.col != 0 {
                    m.emit("\n");
                }
                m.emit(&format!("?BREAK IN {}\n", l));
            }
            End::Error(name, l) => {
                if m.col != 0 {
                    m.emit("\n");
                }
                m.emit(&format!("?{} IN {}\n", name, l));
            }
            End::Unspec(_) => {}
        }
        m.emit("READY.\n<STOPPED>");
        let unspec = matches!(end, End::Unspec(_));
        runs.push(ModelRun {
            out: m.out.clone(),
            end,
            steps,
            kinds: m.kinds.iter().copied().collect(),
            vars: m.vars.clone(),
            max_depth: m.max_depth,
            shape_log: m.shape_log.clone(),
        });
        if unspec {
            break;
        }
    }
    runs
}
