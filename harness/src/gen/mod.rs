//! Generators (independent of `basic::lang::ast`).
