//! Session driver: wraps the real `Runtime`, follows the calling protocol of `src/term/mod.rs`
//! and records every returned event at the API boundary.

use basic::lang::Error;
use basic::mach::{Event, Listing, Runtime};
use std::collections::BTreeMap;
use std::ops::Range;

#[derive(Clone, Debug, PartialEq)]
pub enum Ev {
    Print(String),
    /// Display text, line number, column range (as reported by Error::column()).
    Error(String, Option<u16>, Range<usize>),
    Input(String, bool),
    List(String, Vec<Range<usize>>),
    Cls,
    Load(String),
    Run(String),
    Save(String),
    Inkey,
    Stopped,
    /// Something the terminal (not the runtime) would print, e.g. FILE NOT FOUND on load.
    TermError(String),
}

#[derive(Clone, Debug, PartialEq)]
pub enum Stop {
    Stopped,
    Input(String, bool),
    Inkey,
    Budget,
}

pub struct Session {
    pub rt: Runtime,
    pub log: Vec<Ev>,
    pub quantum: usize,
    /// execute() calls made
    pub calls: u64,
    pub files: BTreeMap<String, Vec<String>>,
    pub held_listings: Vec<Listing>,
    /// replies typed at INPUT prompts by `cmd`-style helpers, and how many have been used
    pub auto_replies: Vec<String>,
    pub auto_pos: usize,
}

pub fn error_parts(e: &Error) -> (String, Option<u16>, Range<usize>) {
    (e.to_string(), e.line_number(), e.column())
}

/// "?SYNTAX ERROR IN 10:5; DETAIL" -> "SYNTAX ERROR"
pub fn error_name(display: &str) -> String {
    let s = display.strip_prefix('?').unwrap_or(display);
    let mut end = s.len();
    if let Some(i) = s.find(" IN ") {
        end = end.min(i);
    }
    if let Some(i) = s.find(';') {
        end = end.min(i);
    }
    s[..end].to_string()
}

/// Normalised error line: "?NAME" or "?NAME IN <line>"
pub fn error_norm(display: &str, line: Option<u16>) -> String {
    match line {
        Some(n) => format!("?{} IN {}", error_name(display), n),
        None => format!("?{}", error_name(display)),
    }
}

impl Session {
    pub fn new() -> Session {
        Session {
            rt: Runtime::default(),
            log: Vec::new(),
            quantum: 5000,
            calls: 0,
            files: BTreeMap::new(),
            held_listings: Vec::new(),
            auto_replies: Vec::new(),
            auto_pos: 0,
        }
    }

    pub fn with_quantum(q: usize) -> Session {
        let mut s = Session::new();
        s.quantum = q;
        s
    }

    /// One execute() call with the session quantum; records and returns the event, handling
    /// Load/Run/Save the way the terminal does.
    pub fn step(&mut self) -> Option<Stop> {
        let q = self.quantum;
        self.step_q(q)
    }

    pub fn step_q(&mut self, q: usize) -> Option<Stop> {
        self.calls += 1;
        let event = self.rt.execute(q);
        match event {
            Event::Running => None,
            Event::Stopped => {
                self.log.push(Ev::Stopped);
                Some(Stop::Stopped)
            }
            Event::Print(s) => {
                self.log.push(Ev::Print(s));
                None
            }
            Event::Errors(errors) => {
                for e in errors.iter() {
                    let (d, l, c) = error_parts(e);
                    self.log.push(Ev::Error(d, l, c));
                }
                None
            }
            Event::Input(p, caps) => {
                self.log.push(Ev::Input(p.clone(), caps));
                Some(Stop::Input(p, caps))
            }
            Event::List((s, cols)) => {
                self.log.push(Ev::List(s, cols));
                None
            }
            Event::Cls => {
                self.log.push(Ev::Cls);
                None
            }
            Event::Inkey => {
                self.log.push(Ev::Inkey);
                Some(Stop::Inkey)
            }
            Event::Load(name) => {
                self.log.push(Ev::Load(name.clone()));
                self.do_load(&name, false);
                None
            }
            Event::Run(name) => {
                self.log.push(Ev::Run(name.clone()));
                self.do_load(&name, true);
                None
            }
            Event::Save(name) => {
                self.log.push(Ev::Save(name.clone()));
                self.do_save(&name);
                None
            }
        }
    }

    /// Mirrors term::save: one `line.to_string()` per line.
    fn do_save(&mut self, name: &str) {
        let listing = self.rt.get_listing();
        if listing.is_empty() {
            self.log
                .push(Ev::TermError("?INTERNAL ERROR; NOTHING TO SAVE".into()));
            return;
        }
        let lines: Vec<String> = listing.lines().map(|l| l.to_string()).collect();
        self.files.insert(name.to_string(), lines);
    }

    /// Mirrors term::load2's non-patch path.
    fn do_load(&mut self, name: &str, run: bool) {
        let lines = match self.files.get(name) {
            Some(l) => l.clone(),
            None => {
                self.log.push(Ev::TermError("?FILE NOT FOUND".into()));
                return;
            }
        };
        let mut listing = Listing::default();
        for line in &lines {
            if let Err(e) = listing.load_str(line) {
                self.log.push(Ev::TermError(e.to_string()));
                return;
            }
        }
        self.rt.set_listing(listing, run);
    }

    /// Loads the given text lines as a file and installs it (what starting `basic FILE` or LOAD does).
    pub fn load_lines(&mut self, lines: &[String], run: bool) -> Result<(), String> {
        let mut listing = Listing::default();
        for line in lines {
            if let Err(e) = listing.load_str(line) {
                return Err(e.to_string());
            }
        }
        self.rt.set_listing(listing, run);
        Ok(())
    }

    /// Calls execute until the interpreter waits for the terminal or `max_calls` is used up.
    pub fn drain(&mut self, max_calls: u64) -> Stop {
        let mut n = 0;
        loop {
            if n >= max_calls {
                return Stop::Budget;
            }
            n += 1;
            if let Some(stop) = self.step() {
                return stop;
            }
        }
    }

    pub fn enter(&mut self, line: &str) -> bool {
        self.rt.enter(line)
    }

    pub fn interrupt(&mut self) {
        self.rt.interrupt();
    }

    /// Enter a line at the prompt and run it to the next stop.
    pub fn command(&mut self, line: &str, max_calls: u64) -> Stop {
        self.enter(line);
        self.drain(max_calls)
    }

    pub fn listing_text(&self) -> Vec<String> {
        self.rt.get_listing().lines().map(|l| l.to_string()).collect()
    }

    pub fn mark(&self) -> usize {
        self.log.len()
    }

    pub fn events_since(&self, mark: usize) -> &[Ev] {
        &self.log[mark..]
    }
}

#[derive(Clone, Copy)]
pub struct Norm {
    /// keep the "; detail" suffix and ":col" of error lines
    pub raw_errors: bool,
    /// drop "READY." prompt lines
    pub drop_ready: bool,
}

impl Norm {
    pub const STD: Norm = Norm {
        raw_errors: false,
        drop_ready: false,
    };
}

/// Text transcript of a slice of events.
pub fn transcript(evs: &[Ev], norm: Norm) -> String {
    let mut s = String::new();
    for ev in evs {
        match ev {
            Ev::Print(p) => {
                if norm.drop_ready && (p == "READY.\n" || p == "\nREADY.\n") {
                    if p.starts_with('\n') {
                        s.push('\n');
                    }
                    continue;
                }
                s.push_str(p)
            }
            Ev::Error(d, l, _c) => {
                if norm.raw_errors {
                    s.push_str(d);
                } else {
                    s.push_str(&error_norm(d, *l));
                }
                s.push('\n');
            }
            Ev::Input(p, caps) => {
                s.push_str(&format!("<INPUT {:?} caps={}>", p, caps));
            }
            Ev::List(l, cols) => {
                s.push_str(l);
                if !cols.is_empty() {
                    s.push_str(&format!(" <<{:?}>>", cols));
                }
                s.push('\n');
            }
            Ev::Cls => s.push_str("<CLS>"),
            Ev::Load(n) => s.push_str(&format!("<LOAD {:?}>", n)),
            Ev::Run(n) => s.push_str(&format!("<RUN {:?}>", n)),
            Ev::Save(n) => s.push_str(&format!("<SAVE {:?}>", n)),
            Ev::Inkey => s.push_str("<INKEY>"),
            Ev::Stopped => s.push_str("<STOPPED>"),
            Ev::TermError(e) => {
                s.push_str(&format!("<TERM {}>", e));
            }
        }
    }
    s
}

/// Result of running a program text to completion.
#[derive(Clone, Debug)]
pub struct RunOut {
    pub transcript: String,
    pub events: Vec<Ev>,
    pub stop: Stop,
    pub replies_used: usize,
}

/// Fresh runtime: type the lines, then the commands, feeding `replies` to INPUT prompts.
/// Runs out of replies => the prompt is interrupted (so the session always ends stopped).
pub fn run_fresh(
    lines: &[String],
    commands: &[String],
    replies: &[String],
    quantum: usize,
    max_calls: u64,
) -> RunOut {
    let mut s = Session::with_quantum(quantum);
    s.drain(16);
    for l in lines {
        s.enter(l);
        if s.drain(16) != Stop::Stopped {
            break;
        }
    }
    let mark = s.mark();
    let mut used = 0usize;
    let mut stop = Stop::Stopped;
    for c in commands {
        s.enter(c);
        stop = drain_with_replies(&mut s, replies, &mut used, max_calls);
        if stop == Stop::Budget {
            break;
        }
    }
    RunOut {
        transcript: transcript(s.events_since(mark), Norm::STD),
        events: s.events_since(mark).to_vec(),
        stop,
        replies_used: used,
    }
}

pub fn drain_with_replies(
    s: &mut Session,
    replies: &[String],
    used: &mut usize,
    max_calls: u64,
) -> Stop {
    let mut budget = max_calls;
    loop {
        let before = s.calls;
        let stop = s.drain(budget);
        let spent = s.calls - before;
        budget = budget.saturating_sub(spent);
        match stop {
            Stop::Input(..) => {
                if *used < replies.len() {
                    let r = replies[*used].clone();
                    *used += 1;
                    s.enter(&r);
                } else {
                    s.interrupt();
                }
            }
            Stop::Inkey => {
                s.enter("");
            }
            other => return other,
        }
        if budget == 0 {
            return Stop::Budget;
        }
    }
}
