#!/bin/sh
# Offline build of the harness (both flavours) against /repo's working tree.
# Compiler output goes to logs/setup.log; it is shown only when a build fails.
set -e
cd "$(dirname "$0")"
mkdir -p evidence replays logs
cd harness
export CARGO_NET_OFFLINE=true
export CARGO_TARGET_DIR="$PWD/target"
for flavour in ship chk; do
  if ! cargo build --offline --profile "$flavour" --quiet >../logs/setup.log 2>&1; then
    tail -40 ../logs/setup.log
    echo "setup failed: $flavour build"
    exit 1
  fi
done
echo setup ok
