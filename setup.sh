#!/bin/sh
# Offline build of the harness (both flavours) against /repo's working tree.
set -e
cd "$(dirname "$0")"
mkdir -p evidence replays logs
cd harness
export CARGO_NET_OFFLINE=true
export CARGO_TARGET_DIR="$PWD/target"
cargo build --offline --profile ship --quiet
cargo build --offline --profile chk --quiet
echo setup ok
