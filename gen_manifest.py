#!/usr/bin/env python3
"""Writes MANIFEST.json from the table below (kept next to ./check so both stay in step)."""
import json, subprocess

CLAIMED = {
 "C01": ("exploration", "2/C01", "reference interpreter vs Runtime transcripts",
         "Differential monitor: generated structured programs (all control statements, TRON) run on the real Runtime; the full event transcript must equal the statement-by-statement reference interpreter's. Held on the thousands of distinct programs observed per run, nothing more."),
 "C02": ("exploration", "2/C02", "typed value model vs Operation/Runtime",
         "Expression trees over all operators and the four types are evaluated by the public Operation functions through the real parser/VM and compared (value and type) with an exact reference model; precedence is checked by comparing minimally parenthesised against fully parenthesised text."),
 "C03": ("exploration", "2/C03", "hostile fuzzing under panic/fuel/CPU-watchdog monitors, two build flavours",
         "Token soup, mutated programs and API interleavings (enter/execute/interrupt/get_listing/set_listing) run under catch_unwind, loop-fuel hooks, a per-case CPU watchdog and an abort journal, in a release-like and an overflow-checked build. Bounded-progress restatement of 'never wedges'."),
 "C04": ("exploration", "2/C04", "edit-history vs fresh-interpreter transcript equality",
         "Metamorphic monitor over random edit histories ending in RUN/RUN n/CONT/RETURN/NEXT, compared with a fresh interpreter fed get_listing()."),
 "C05": ("exploration", "2/C05", "list/re-enter fixed point + AST equality",
         "Every generated or mutated line is listed, re-entered and listed again: text must be a fixed point, ASTs equal (or both rejected), literals and remarks preserved; exhaustive over short strings of the lexical alphabet in the thorough tier."),
 "C06": ("exploration", "2/C06", "variable-store model vs probe",
         "Random sequences of assignments, DIM/ERASE, DEFtype, SWAP and reads; a reference store predicts every value, type and error; the probe hook verifies stored types."),
 "C07": ("exploration", "2/C07", "character-level string model vs Function::*",
         "String functions called with ASCII and multi-byte strings at boundary positions/lengths, compared with a char-vector reference model."),
 "C08": ("exploration", "2/C08", "exact i64 model vs Operation/Function, exhaustive unary, boundary-squared binary",
         "Exhaustive over all 65536 Integers for unary operations and over the boundary set squared (all 2^32 pairs in the thorough tier) for binary ones, in release-like and overflow-checked builds."),
 "C09": ("exploration", "2/C09", "reference interpreter vs Runtime (DATA/READ/RESTORE workload)",
         "As C01 with DATA lines placed anywhere, READ lists, RESTORE and RESTORE n, OUT OF DATA."),
 "C10": ("exploration", "2/C10", "reference interpreter vs Runtime (DEF FN workload)",
         "As C01 with user functions of 1..3 parameters that shadow program variables, nested calls, calls inside PRINT lists, loops and subroutines, plus a fixed corpus for the documented errors."),
 "C11": ("exploration", "2/C11", "print-layout model vs Runtime output",
         "Print lists mixing strings, numbers, ';' ',' TAB SPC POS across statements compared with a column-tracking model; number text must read back to the same value and be the shortest such."),
 "C12": ("exploration", "2/C12", "session-prefix vs fresh RUN equality + CLEAR/NEW probe",
         "Metamorphic monitor: RUN after arbitrary session prefixes equals RUN in a fresh interpreter; the probe shows start-up state after CLEAR and an empty listing after NEW."),
 "C13": ("fault_enumeration", "2/C13", "interrupt-point sweep + quantum sweep",
         "Every instruction boundary of small programs (sampled for larger) is interrupted and continued; whole runs repeated with execute() quanta 1,2,3,7,64."),
 "C14": ("exploration", "2/C14", "RENUM structural oracle + behaviour equality",
         "After RENUM a,b,c the listing must be the model's renumbering (order, unchanged prefix, rewritten operands, nothing else) or unchanged on error, and the run transcript must be equal up to line numbers."),
 "C15": ("exploration", "2/C15", "ordered-map model vs listing, LIST and DELETE",
         "Random and small-universe edit/LIST/DELETE histories against a BTreeMap model; every LIST output and the listing after every step are compared."),
 "C16": ("exploration", "2/C16", "respelling metamorphic monitor",
         "Each program in canonical and random spelling: listings equal up to user blanks, runs equal."),
 "C17": ("exploration", "2/C17", "INPUT reply model vs Runtime",
         "INPUT statements with 1..4 variables of every type and replies with quotes, commas, blanks, radix forms and malformed numbers, compared with a reference reply parser (prompt, caps flag, stored values, REDO)."),
 "C18": ("exploration", "2/C18", "leak-per-iteration and pool-limit monitors via the probe hook",
         "Each statement kind looped thousands of times with the stack depth sampled through the probe (must not grow); every pool driven past its limit must end in OUT OF MEMORY with the session usable afterwards."),
 "C19": ("exploration", "2/C19", "fault injection + diagnostic column oracle + execution gate",
         "Dangling references injected in every referencing form (with multi-byte text before them), unmatched WHILE/WEND and token damage: the reported range must cover exactly the number/keyword in the listed text, and no line of the program may execute."),
 "C20": ("exploration", "2/C20", "layout-transformation metamorphic monitor",
         "Programs re-laid-out (renumbered, padded, split) must run identically up to line numbers; direct statements independent of the program in memory."),
}

def main():
    import sys
    claimed = sys.argv[1:]
    hooks = subprocess.run(["git", "-C", "/repo", "log", "--format=%H %s"], stdout=subprocess.PIPE, text=True).stdout
    hook_commits = [l.split()[0] for l in hooks.splitlines() if "verif hooks" in l]
    m = {
        "version": 1,
        "setup_cmd": "./setup.sh",
        "hooks": {
            "guard": "ae9rb_basic_lang_verif",
            "enable": "RUSTFLAGS --cfg ae9rb_basic_lang_verif (set in /verif/harness/.cargo/config.toml; /repo is a path dependency of the harness, rebuilt from its working tree by every check)",
            "baseline_off_cmd": "cd /repo && cargo test --workspace --no-fail-fast --offline",
            "source_commits": hook_commits,
            "add_only": True,
        },
        "engines": [{
            "name": "vh",
            "path": "/verif/harness",
            "serves_properties": claimed,
            "kind_free_text": "Rust worker linking the real crate with hooks on; generators, reference models, monitors; orchestrated by /verif/check (python3)",
        }],
        "checks": [],
        "not_applicable": [],
        "notes": "exit 0 held / 1 VIOLATION / 2 INCONCLUSIVE. Known findings: /verif/known_findings.json.",
    }
    for pid in sorted(CLAIMED):
        level, ref, tech, text = CLAIMED[pid]
        if pid in claimed:
            m["checks"].append({
                "property_id": pid,
                "quick_cmd": "./check %s quick" % pid,
                "thorough_cmd": "./check %s thorough" % pid,
                "evidence_file": "/verif/evidence/%s.json" % pid,
                "replay_cmd_template": "./check %s --replay {path}" % pid,
                "engine": "vh",
                "level_claimed": {"category": level, "text": text, "design_ref": "DESIGN.md section " + ref},
                "level_note": "Trusted: the reference model/relation written from the manual (DESIGN.md Appendix A), the driver's mirroring of the terminal's calling protocol, rustc. Held only on the executions observed (counts in the evidence file).",
                "technique": tech,
            })
        else:
            m["not_applicable"].append({
                "property_id": pid,
                "reason": "not claimed: the monitor for this property was not finished in the time available (see DESIGN.md section 7); the technique applies, no verdict is given",
            })
    json.dump(m, open("/verif/MANIFEST.json", "w"), indent=1)
    print("claimed:", claimed)

main()
