#!/usr/bin/env python3
"""Writes MANIFEST.json from the table below (kept next to ./check so both stay in step)."""
import json, subprocess

CLAIMED = {
 "C01": ("exploration", "2/C01, 8", "runtime monitoring: reference-model monitor (source-level interpreter) over event transcripts of the real Runtime",
         "Differential monitor: generated structured programs (every control statement, nested and early-left loops, NEXT lists, subroutines before or after the main part, programs that fall off the end or end in a conditional END, programs ending in ON..GOTO / ON..GOSUB, INPUT with reply scripts incl. rejected replies, INKEY$, fractional values and raw numeric IF/WHILE predicates, strings, numeric array elements with computed subscripts, TRON) run on the real Runtime; the full event transcript of RUN, and of sessions TRON / TROFF / RUN n / direct GOTO n / CONT / repeated RUN, must equal the statement-by-statement reference interpreter's. Held on the ~10^5 distinct programs observed per quick run, nothing more."),
 "C02": ("exploration", "2/C02, 8", "runtime monitoring: typed value model vs the typed VM stack read through the probe hook",
         "Expression trees over all operators and the four types, numeric literals in every documented form (typing rules), and the numeric functions go through the real lexer/parser/VM; the typed value on the VM stack at PRINT (probe hook) is compared with an exact reference model; precedence is checked by comparing minimally against fully parenthesised text; assignments are read back typed from the variable store."),
 "C03": ("exploration", "2/C03, 8", "runtime monitoring: hostile API sessions under panic / loop-fuel / CPU-watchdog monitors in two build flavours, plus Miri and valgrind memcheck (thorough)",
         "Token soup, mutated programs, boundary-length lines and API interleavings (enter/execute/interrupt/CONT at prompts/get_listing/set_listing), sessions with the value stack a few cells below its limit, programs around the pool size and programs sized through the probe to end a few opcodes short of it followed by direct statements, string temporaries of tens of thousands of characters, breaks while an INPUT reply is being assigned, run under catch_unwind, loop-fuel hooks, a per-case CPU watchdog and an abort journal, in a release-like and an overflow-checked build; the thorough tier repeats scaled-down sessions under Miri (UB interpreter) and valgrind memcheck. Bounded-progress restatement of 'never wedges'."),
 "C04": ("exploration", "2/C04", "runtime monitoring: metamorphic monitor, edit-history vs fresh-interpreter transcripts",
         "Random edit histories (insert/replace/delete incl. absent lines, DELETE ranges, RENUM, direct statements, optional earlier run stopping inside frames) NEW / SAVE / LOAD, program lines that DELETE, ending in RUN/RUN n/CONT/RETURN/NEXT or a call of a function the earlier run defined, compared with a fresh interpreter fed get_listing(); non-editing direct statements must leave the listing unchanged."),
 "C05": ("exploration", "2/C05, 8", "runtime monitoring: list / re-enter fixed-point and AST-equality monitor, lines at the limit through enter + load_str",
         "Every generated, respelled (incl. crunched), mutated or token-soup line is listed, re-entered and listed again: text must be a fixed point, ASTs equal (or both rejected), and Listing::load_str of the saved text must give the same line; lines of 1018..1027 bytes go through Runtime::enter, LIST and load; exhaustive over short strings of the lexical alphabet in the thorough tier."),
 "C06": ("exploration", "2/C06, 8", "runtime monitoring: reference variable store vs responses, type invariant walked over the real store (probe hook)",
         "Random sequences of assignments (with conversions), DIM/ERASE, DEFtype, SWAP and reads over colliding names, 1..3 dimensions, boundary / fractional / huge subscripts, chains store / ERASE / smaller DIM / same store on one array, program lines typed and removed in between, SWAP inside programs continued with CONT after TYPE MISMATCH; a reference store predicts every value and error; after every statement the probe verifies that each stored value has the type its name implies."),
 "C07": ("exploration", "2/C07", "runtime monitoring: character-vector string model vs Function::* and the pipeline",
         "String functions and MID$ assignment with ASCII and multi-byte strings (also periodic ones with self-overlapping INSTR patterns) at boundary positions/lengths (0,1,len,len+1,255,256,negative), stored into $ variables, array elements and variables that are strings by DEFSTR, and replies typed at INPUT, compared with a char-vector reference model."),
 "C08": ("exploration", "2/C08", "runtime monitoring: exact i64 model vs Operation/Function, rustc overflow instrumentation (chk build)",
         "Exhaustive over all 65536 Integers for unary operations and over the boundary set squared (all 2^32 pairs in the thorough tier) for binary ones; floats at 1/16 steps, single and double ulps and 2^-k offsets around the conversion limits; through the pipeline: variables, arrays, DEFINT, FOR/NEXT, literals in every spelling under folded operators, variables retyped by DEFINT, and failing programs interrupted at every instruction boundary and continued (the error must still be reported); in release-like and overflow-checked builds."),
 "C09": ("exploration", "2/C09", "runtime monitoring: reference-model monitor (DATA/READ/RESTORE workload)",
         "As C01 with DATA lines placed anywhere, READ lists (also with repeated targets), RESTORE and RESTORE n onto lines with and without DATA, OUT OF DATA, RUN n / direct GOTO sessions, refused direct DATA."),
 "C10": ("exploration", "2/C10", "runtime monitoring: reference-model monitor (DEF FN workload)",
         "As C01 with user functions of 1..3 parameters that shadow program variables, nested calls, redefinition (also with another arity), calls inside PRINT lists, loops, subroutines and array subscripts, arrays named like parameters, statements behind DEF on its line; a fixed corpus of 17 sessions for the documented errors."),
 "C11": ("exploration", "2/C11, 8", "runtime monitoring: column-tracking print-layout model vs Runtime output; read-back of number text",
         "Print lists mixing strings (multi-byte, embedded line feed), numbers, ';' ',' juxtaposition, TAB SPC POS across statements, as one direct line or as program lines, also inside IF arms (separator before ELSE), INPUT between the PRINTs (also with the prompt re-issued by CONT after a break), compared with a column-tracking model; number text must read back to the same value and be the shortest such."),
 "C12": ("exploration", "2/C12", "runtime monitoring: metamorphic monitor (session prefix vs fresh RUN) + start-up-state probe after CLEAR/NEW",
         "RUN after arbitrary session prefixes equals RUN in a fresh interpreter (transcript and final store); the probe shows start-up state after CLEAR (typed, or executed by the program inside loops and subroutines) and after NEW, all 26 DEFtype letters included."),
 "C13": ("fault_enumeration", "2/C13, 8", "runtime monitoring: interrupt-point sweep (every execute(1) boundary incl. INPUT/INKEY$ waits) + quantum sweep + inserted STOP/END",
         "Every instruction boundary of small programs (150 sampled for larger ones in the quick tier) is interrupted, optionally inspected, and continued with CONT, in states Running, Input, InputRedo, InputRunning, Inkey and RuntimeError (error raised, not yet reported); whole runs repeated with execute() quanta 1,2,3,7,64; STOP or END inserted at a random statement boundary and continued."),
 "C14": ("exploration", "2/C14", "runtime monitoring: RENUM structural oracle over listings + behaviour equality",
         "After RENUM a,b,c the listing must be the model's renumbering (order, unchanged prefix, rewritten operands, nothing else) or unchanged on error (also: refused as a program statement and with compile errors), the run transcript must be equal up to line numbers, and with TRON on equal to that of the reference text typed into a fresh interpreter, line numbers included."),
 "C15": ("exploration", "2/C15", "runtime monitoring: ordered-map model vs listing, LIST and DELETE events",
         "Random edit/LIST/DELETE histories over a small universe and the whole range against a BTreeMap model, after an exhaustive enumeration of all histories of 1..2 (thorough: 3) commands over a small universe; every LIST output, get_listing().line(n) and the listing after every step are compared; refused forms (numbers above 65529, inverted ranges, DELETE without a number followed by anything, lines too long when listed) must change nothing."),
 "C16": ("exploration", "2/C16, 8", "runtime monitoring: respelling metamorphic monitor (case, blanks, crunched keywords, aliases)",
         "Each program in canonical and random spelling (case, optional blanks, blanks inside relational operators, ?, GO TO, crunched keywords such as 7MOD3 / THENPRINT / ONA wherever the reserved-word split is unambiguous): listings equal up to optional blanks next to punctuation (a blank between two words is required), runs equal."),
 "C17": ("exploration", "2/C17", "runtime monitoring: INPUT reply model vs Input events, REDO, stored values (probe)",
         "INPUT statements with 1..4 variables of every type and replies with quotes, commas, blanks, radix forms (all hex digits), blank-only fields and malformed numbers, under DEFtype settings, as a direct line or as a program line with a break + CONT at one of the prompts, compared with a reference reply parser (prompt, caps flag, stored values, REDO)."),
 "C18": ("exploration", "2/C18, 8", "runtime monitoring: stack-shape conservation monitor, pool-limit drivers, zeroing monitor, counting allocator",
         "Generated looped programs carry Z9 markers; at every marker the real value-stack depth (probe) must equal 4*FOR+GOSUB frames of the reference interpreter; all-flat programs run 3000 passes with flat stack and heap; each statement form looped 70,000 times; every pool driven past its limit must end in OUT OF MEMORY with a bounded heap high-water mark and a usable session; 22 ways of making variables 0 / \"\" must free their slots; breaks at INKEY$ / INPUT waits inside loops and subroutines must be continued with the same stack depth and leave nothing behind."),
 "C19": ("exploration", "2/C19, 8", "runtime monitoring: fault injection + diagnostic-range oracle over listed text + execution gate",
         "Dangling references (also to line 0) injected in every referencing form (with multi-byte text before them), unmatched WHILE/WEND and token damage: the reported range must cover exactly the number/keyword in the listed text, LIST underlines the same range, no line of the program may execute, and direct statements incl. direct WHILE/FOR loops still work."),
 "C20": ("exploration", "2/C20, 8", "runtime monitoring: layout-transformation metamorphic monitor",
         "Programs re-laid-out (renumbered incl. from line 0, padded with no-op and unreachable lines, split) must run identically up to line numbers; direct statements independent of the program in memory, equal to the one-line program; lines without statements do nothing in direct mode."),
}

def main():
    import sys
    claimed = sys.argv[1:]
    hooks = subprocess.run(["git", "-C", "/repo", "log", "--format=%H %s"], stdout=subprocess.PIPE, text=True).stdout
    hook_commits = [l.split()[0] for l in hooks.splitlines() if "verif hooks" in l]
    m = {
        "version": 1,
        "setup_cmd": "./setup.sh",
        "hooks": {
            "guard": "ae9rb_basic_lang_verif",
            "enable": "RUSTFLAGS --cfg ae9rb_basic_lang_verif (set in /verif/harness/.cargo/config.toml; /repo is a path dependency of the harness, rebuilt from its working tree by every check)",
            "baseline_off_cmd": "cd /repo && cargo test --workspace --no-fail-fast --offline",
            "source_commits": hook_commits,
            "add_only": True,
        },
        "engines": [{
            "name": "vh",
            "path": "/verif/harness",
            "serves_properties": claimed,
            "kind_free_text": "Rust worker linking the real crate with hooks on; generators, reference models, monitors; orchestrated by /verif/check (python3)",
        }],
        "checks": [],
        "not_applicable": [],
        "notes": "exit 0 held / 1 VIOLATION / 2 INCONCLUSIVE. Known findings and fixed defects: /verif/known_findings.json. Validation tools (not checks): tools/mutrun.py, tools/mutsweep.py, tools/reseed.py; seeded changes under seeded/.",
    }
    for pid in sorted(CLAIMED):
        level, ref, tech, text = CLAIMED[pid]
        if pid in claimed:
            m["checks"].append({
                "property_id": pid,
                "quick_cmd": "./check %s quick" % pid,
                "thorough_cmd": "./check %s thorough" % pid,
                "evidence_file": "/verif/evidence/%s.json" % pid,
                "replay_cmd_template": "./check %s --replay {path}" % pid,
                "engine": "vh",
                "level_claimed": {"category": level, "text": text, "design_ref": "DESIGN.md section " + ref},
                "level_note": "Trusted: the reference model/relation written from the manual (DESIGN.md Appendix A), the driver's mirroring of the terminal's calling protocol, rustc (and Miri / valgrind where named). Held only on the executions observed (counts in the evidence file); validated against the independently seeded changes kept under seeded/ (four rounds, table in seeded/SUMMARY.md) and the mutation catalogue (mutants/).",
                "technique": tech,
            })
        else:
            m["not_applicable"].append({
                "property_id": pid,
                "reason": "not claimed: the monitor for this property was not finished in the time available (see DESIGN.md section 7); the technique applies, no verdict is given",
            })
    json.dump(m, open("/verif/MANIFEST.json", "w"), indent=1)
    print("claimed:", claimed)

main()
