#!/usr/bin/env python3
"""Take in one seeded change produced by a sub-agent, confirm it, run the checks against it.

  tools/seedin.py <worktree-name> <a|b> <property> <seed-id> [--tier quick] [--checks C01,C02|all]

1. fresh scratch worktree of /repo HEAD; copy the demo test in; `cargo test` -> demo passes,
   95 pinned tests pass (unchanged tree);
2. apply the patch; `cargo test --no-fail-fast` -> pinned tests still pass, demo fails;
3. tools/mutrun.py with the patch: which checks fire;
4. write /verif/seeded/<seed-id>/{patch.diff,demo.rs,notes.md,meta.json}.
Nothing is kept when step 1 or 2 does not confirm the change (meta.json says why under
/verif/seeded/rejected/<seed-id>.json).
"""
import json
import os
import re
import shutil
import subprocess
import sys

VERIF = os.path.dirname(os.path.dirname(os.path.abspath(__file__)))


def sh(cmd, **kw):
    return subprocess.run(cmd, shell=True, stdout=subprocess.PIPE, stderr=subprocess.STDOUT, text=True, **kw)


def tests(wt):
    r = sh("cd %s && CARGO_NET_OFFLINE=true cargo test --offline --no-fail-fast 2>&1" % wt)
    res = {}
    cur = None
    for line in r.stdout.splitlines():
        m = re.match(r"\s+Running (?:unittests )?(\S+)", line)
        if m:
            cur = os.path.basename(m.group(1)).replace(".rs", "")
        m = re.match(r"test result: \w+\. (\d+) passed; (\d+) failed", line)
        if m and cur:
            res[cur] = (int(m.group(1)), int(m.group(2)))
            cur = None
    compile_error = bool(re.search(r"^error(\[|:)", r.stdout, re.M)) and not res
    return res, compile_error, r.stdout


def main():
    a = sys.argv[1:]
    wtname, ab, prop, sid = a[0], a[1], a[2], a[3]
    tier, checks = "quick", "all"
    i = 4
    while i < len(a):
        if a[i] == "--tier":
            tier = a[i + 1]; i += 2
        elif a[i] == "--checks":
            checks = a[i + 1]; i += 2
        else:
            i += 1
    src = "/tmp/wt/%s/SEEDED" % wtname
    patch = "%s/%s.patch.diff" % (src, ab)
    demo = "%s/%s.demo.rs" % (src, ab)
    notes = "%s/%s.notes.md" % (src, ab)
    for f in (patch, demo):
        if not os.path.exists(f):
            print("missing " + f); return 2
    wt = "/tmp/seedin/" + sid
    sh("git -C /repo worktree remove --force %s; rm -rf %s" % (wt, wt))
    os.makedirs("/tmp/seedin", exist_ok=True)
    r = sh("git -C /repo worktree add --detach %s HEAD" % wt)
    if r.returncode:
        print(r.stdout); return 2
    meta = {"seed_id": sid, "property": prop, "source_worktree": wtname, "variant": ab,
            "repo_head": sh("git -C /repo rev-parse --short HEAD").stdout.strip()}
    ok = True
    try:
        os.makedirs(wt + "/target", exist_ok=True)
        sh("cp -a /repo/target/debug %s/target/" % wt)
        shutil.copy(demo, wt + "/tests/seeded_demo.rs")
        res, cerr, out = tests(wt)
        pinned = {k: v for k, v in res.items() if not k.startswith("seeded_demo")}
        dem = [v for k, v in res.items() if k.startswith("seeded_demo")]
        meta["unchanged"] = {"pinned_passed": sum(v[0] for v in pinned.values()), "pinned_failed": sum(v[1] for v in pinned.values()),
                             "demo": dem[0] if dem else None}
        if cerr or not dem or dem[0][1] != 0 or dem[0][0] == 0:
            ok = False
            meta["reject"] = "demo does not pass on the unchanged tree"
            meta["log"] = out[-1500:]
        if ok:
            r = sh("git -C %s apply --whitespace=nowarn %s" % (wt, patch))
            if r.returncode:
                ok = False
                meta["reject"] = "patch does not apply: " + r.stdout[-500:]
        if ok:
            res, cerr, out = tests(wt)
            pinned = {k: v for k, v in res.items() if not k.startswith("seeded_demo")}
            dem = [v for k, v in res.items() if k.startswith("seeded_demo")]
            meta["changed"] = {"pinned_passed": sum(v[0] for v in pinned.values()), "pinned_failed": sum(v[1] for v in pinned.values()),
                               "demo": dem[0] if dem else None}
            if cerr:
                ok = False; meta["reject"] = "does not compile"; meta["log"] = out[-1500:]
            elif meta["changed"]["pinned_failed"] or meta["changed"]["pinned_passed"] != meta["unchanged"]["pinned_passed"]:
                ok = False; meta["reject"] = "pinned tests fail with the change"
            elif not dem or dem[0][1] == 0:
                ok = False; meta["reject"] = "demo does not fail with the change"
    finally:
        sh("git -C /repo worktree remove --force %s; rm -rf %s; git -C /repo worktree prune" % (wt, wt))
    if not ok:
        os.makedirs(VERIF + "/seeded/rejected", exist_ok=True)
        json.dump(meta, open("%s/seeded/rejected/%s.json" % (VERIF, sid), "w"), indent=1)
        print("REJECTED %s: %s" % (sid, meta.get("reject")))
        return 1
    print("confirmed %s: unchanged %s, changed %s" % (sid, meta["unchanged"], meta["changed"]), flush=True)
    d = "%s/seeded/%s" % (VERIF, sid)
    os.makedirs(d, exist_ok=True)
    shutil.copy(patch, d + "/patch.diff")
    shutil.copy(demo, d + "/demo.rs")
    if os.path.exists(notes):
        shutil.copy(notes, d + "/notes.md")
    ids = [] if checks == "all" else checks.split(",")
    if checks == "none":
        meta["what_ran"] = ["cargo test --offline --no-fail-fast (unchanged tree + demo, then patched tree + demo)"]
        json.dump(meta, open(d + "/meta.json", "w"), indent=1)
        print("SEED %s property=%s confirmed (checks not run yet)" % (sid, prop))
        return 0
    p = subprocess.run([VERIF + "/tools/mutrun.py", sid, d + "/patch.diff", "--tier", tier] + ids,
                       stdout=subprocess.PIPE, stderr=subprocess.STDOUT, text=True)
    print(p.stdout)
    m = re.search(r"^RESULT (.*)$", p.stdout, re.M)
    if m:
        resj = json.loads(m.group(1))
        fired = sorted(k for k, v in resj["checks"].items() if v["rc"] == 1)
        meta["checks_run"] = {"tier": tier, "fired": fired,
                              "signatures": {k: v["sigs"] for k, v in resj["checks"].items() if v["rc"] == 1},
                              "silent": sorted(k for k, v in resj["checks"].items() if v["rc"] == 0),
                              "inconclusive": sorted(k for k, v in resj["checks"].items() if v["rc"] not in (0, 1))}
        meta["caught_by_owner"] = prop in fired
    meta["what_ran"] = ["cargo test --offline --no-fail-fast (unchanged tree + demo, then patched tree + demo)",
                        "tools/mutrun.py %s patch.diff --tier %s %s" % (sid, tier, checks)]
    json.dump(meta, open(d + "/meta.json", "w"), indent=1)
    print("SEED %s property=%s fired=%s owner_caught=%s" % (sid, prop, meta.get("checks_run", {}).get("fired"), meta.get("caught_by_owner")))
    return 0


if __name__ == "__main__":
    sys.exit(main())
