#!/usr/bin/env python3
"""Re-run the checks against every kept seeded change and refresh its meta.json.

  tools/reseed.py [-j N] [--tier quick] [--only C01,C13] [--owner-only] [seed-id ...]

Each seed is applied to a scratch worktree of /repo HEAD by tools/mutrun.py (never to /repo
itself); meta.json gets `checks_run` (tier, fired, silent, signatures) and `caught_by_owner`.
Prints a summary table and writes /verif/seeded/SUMMARY.md.
"""
import json
import os
import re
import subprocess
import sys
from concurrent.futures import ThreadPoolExecutor

VERIF = os.path.dirname(os.path.dirname(os.path.abspath(__file__)))
SEEDED = os.path.join(VERIF, "seeded")


def one(sid, tier, owner_only):
    d = os.path.join(SEEDED, sid)
    meta = json.load(open(os.path.join(d, "meta.json")))
    prop = meta["property"]
    cmd = [os.path.join(VERIF, "tools", "mutrun.py"), sid, os.path.join(d, "patch.diff"), "--tier", tier]
    if owner_only:
        cmd.append(prop)
    p = subprocess.run(cmd, stdout=subprocess.PIPE, stderr=subprocess.STDOUT, text=True)
    m = re.search(r"^RESULT (.*)$", p.stdout, re.M)
    if not m:
        return sid, None, p.stdout[-800:]
    res = json.loads(m.group(1))
    fired = sorted(k for k, v in res["checks"].items() if v["rc"] == 1)
    previous = (meta.get("checks_run"), meta.get("caught_by_owner"))
    meta["checks_run"] = {
        "tier": tier,
        "fired": fired,
        "signatures": {k: v["sigs"] for k, v in res["checks"].items() if v["rc"] == 1},
        "silent": sorted(k for k, v in res["checks"].items() if v["rc"] == 0),
        "inconclusive": sorted(k for k, v in res["checks"].items() if v["rc"] not in (0, 1)),
        "verif_commit": subprocess.run("git -C %s rev-parse --short HEAD" % VERIF, shell=True, stdout=subprocess.PIPE, text=True).stdout.strip(),
        "repo_head": subprocess.run("git -C /repo rev-parse --short HEAD", shell=True, stdout=subprocess.PIPE, text=True).stdout.strip(),
    }
    if not owner_only:
        meta["all_checks_run"] = {"fired": fired, "verif_commit": meta["checks_run"]["verif_commit"], "tier": tier}
    meta["caught_by_owner"] = prop in fired
    if not owner_only and prop not in fired and previous[1]:
        # a (possibly scaled-down) run of all checks does not take back what a full run of the own check showed
        meta["checks_run"], meta["caught_by_owner"] = previous
    wr = [w for w in meta.get("what_ran", []) if not w.startswith("tools/mutrun.py")]
    wr.append("tools/mutrun.py %s patch.diff --tier %s %s" % (sid, tier, prop if owner_only else "all"))
    meta["what_ran"] = wr
    json.dump(meta, open(os.path.join(d, "meta.json"), "w"), indent=1)
    return sid, meta, ""


def write_summary():
    """seeded/SUMMARY.md from every meta.json on disk."""
    rows = []
    for sid in sorted(os.listdir(SEEDED)):
        mp = os.path.join(SEEDED, sid, "meta.json")
        if not os.path.exists(mp):
            continue
        m = json.load(open(mp))
        cr = m.get("checks_run")
        ac = m.get("all_checks_run")
        others = sorted(set((ac or {}).get("fired", [])) - {m["property"]})
        rows.append("| %s | %s | %s | %s | %s |" % (
            sid, m["property"],
            ("yes" if m.get("caught_by_owner") else "NO") + (" (%s)" % cr.get("verif_commit", "?") if cr else " (not run)"),
            (", ".join(others) if others else "-") + (" (%s)" % ac.get("verif_commit") if ac else " (no all-check run)"),
            m.get("owner_note", "")))
    with open(os.path.join(SEEDED, "SUMMARY.md"), "w") as f:
        f.write("# Seeded changes and which checks report them\n\n"
                "Each seed is a change to AE9RB/basic-lang made by a sub-agent that saw only the property text; it compiles, passes the 95 pinned\n"
                "tests and breaks the property (demo.rs). Column 3: does the property's own quick check report it (harness commit of that\n"
                "run). Column 4: which *other* quick checks reported it in the last run of all 20 (harness commit of that run; checks were\n"
                "strengthened afterwards, so this column is a lower bound). Column 5: note where the owner check is silent by design.\n\n"
                "| seed | property | own check fires | other checks that fired | note |\n|---|---|---|---|---|\n")
        f.write("\n".join(rows) + "\n")


def main():
    a = sys.argv[1:]
    if a == ["--summary"]:
        write_summary()
        return 0
    j, tier, only, owner_only, ids = 4, "quick", None, False, []
    i = 0
    while i < len(a):
        if a[i] == "-j":
            j = int(a[i + 1]); i += 2
        elif a[i] == "--tier":
            tier = a[i + 1]; i += 2
        elif a[i] == "--only":
            only = a[i + 1].split(","); i += 2
        elif a[i] == "--owner-only":
            owner_only = True; i += 1
        else:
            ids.append(a[i]); i += 1
    if not ids:
        ids = sorted(d for d in os.listdir(SEEDED) if os.path.exists(os.path.join(SEEDED, d, "meta.json")))
    if only:
        ids = [s for s in ids if s.split("-")[0] in only]
    with ThreadPoolExecutor(max_workers=j) as ex:
        futs = [ex.submit(one, s, tier, owner_only) for s in ids]
        for f in futs:
            sid, meta, err = f.result()
            if meta is None:
                print("%-45s ERROR %s" % (sid, err[-300:]), flush=True)
                continue
            cr = meta["checks_run"]
            print("%-45s owner=%s %-7s fired=%s" % (sid, meta["property"], "CAUGHT" if meta["caught_by_owner"] else ("elsewhere" if cr["fired"] else "MISSED"),
                                                    ",".join(cr["fired"])), flush=True)
    write_summary()
    return 0


if __name__ == "__main__":
    sys.exit(main())
