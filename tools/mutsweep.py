#!/usr/bin/env python3
"""Run tools/mutrun.py over a set of patches in parallel and tabulate which checks fire.

  tools/mutsweep.py [-j N] [--tier quick] [--tests] [--out FILE] <patch.diff ...>

Writes a JSON table (default /verif/mutants/RESULTS.json, merged with earlier results) and
prints one summary line per mutant: expected checks (from tools/mutants.py when the patch is
mutants/<id>.diff), fired checks, verdict caught/MISSED.
"""
import json
import os
import re
import subprocess
import sys
from concurrent.futures import ThreadPoolExecutor

VERIF = os.path.dirname(os.path.dirname(os.path.abspath(__file__)))
sys.path.insert(0, os.path.join(VERIF, "tools"))
import mutants  # noqa: E402

EXPECT = {m[0]: m[1] for m in mutants.M}
DESC = {m[0]: m[5] for m in mutants.M}


def one(patch, tier, tests, ids):
    name = os.path.basename(patch).replace(".diff", "").replace(".patch", "")
    if ids == ["expected"]:
        ids = EXPECT.get(name, ["all"])
    cmd = [os.path.join(VERIF, "tools", "mutrun.py"), name, patch, "--tier", tier]
    if tests:
        cmd.append("--tests")
    cmd += ids
    p = subprocess.run(cmd, stdout=subprocess.PIPE, stderr=subprocess.STDOUT, text=True)
    m = re.search(r"^RESULT (.*)$", p.stdout, re.M)
    if not m:
        return name, {"error": p.stdout[-1500:]}
    return name, json.loads(m.group(1))


def main():
    a = sys.argv[1:]
    j, tier, tests, out, ids = 3, "quick", False, os.path.join(VERIF, "mutants", "RESULTS.json"), ["all"]
    patches = []
    i = 0
    while i < len(a):
        if a[i] == "-j":
            j = int(a[i + 1]); i += 2
        elif a[i] == "--tier":
            tier = a[i + 1]; i += 2
        elif a[i] == "--tests":
            tests = True; i += 1
        elif a[i] == "--out":
            out = a[i + 1]; i += 2
        elif a[i] == "--ids":
            ids = a[i + 1].split(","); i += 2
        else:
            patches.append(os.path.abspath(a[i])); i += 1
    try:
        table = json.load(open(out))
    except Exception:
        table = {}
    with ThreadPoolExecutor(max_workers=j) as ex:
        futs = [ex.submit(one, p, tier, tests, ids) for p in patches]
        for f in futs:
            name, res = f.result()
            table[name] = res
            if "error" in res:
                print("%s ERROR %s" % (name, res["error"][-400:]), flush=True)
                continue
            fired = sorted(k for k, v in res["checks"].items() if v["rc"] == 1)
            inc = sorted(k for k, v in res["checks"].items() if v["rc"] not in (0, 1))
            exp = EXPECT.get(name, [])
            verdict = "caught" if fired else "MISSED"
            if exp and fired and not (set(exp) & set(fired)):
                verdict = "caught-elsewhere"
            t = res.get("tests")
            print("%-8s %-16s exp=%-8s fired=%-30s inconclusive=%s tests=%s  %s" % (
                name, verdict, ",".join(exp), ",".join(fired), ",".join(inc),
                ("%d/%d" % (t["passed"], t["passed"] + t["failed"])) if t else "-", DESC.get(name, "")), flush=True)
            json.dump(table, open(out, "w"), indent=1)
    return 0


if __name__ == "__main__":
    sys.exit(main())
