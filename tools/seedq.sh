#!/bin/sh
# seedq.sh: serial queue for seed intake. Append lines "<wt> <a|b> <prop> <seed-id>" to /tmp/seedq.txt;
# this loop processes them one at a time and logs to /tmp/seedlogs/<seed-id>.log. Stop with: touch /tmp/seedq.stop
mkdir -p /tmp/seedlogs; touch /tmp/seedq.txt /tmp/seedq.done
while [ ! -e /tmp/seedq.stop ]; do
  line=$(grep -vxFf /tmp/seedq.done /tmp/seedq.txt | head -1)
  if [ -z "$line" ]; then sleep 5; continue; fi
  set -- $line
  /verif/tools/seedin.py "$1" "$2" "$3" "$4" --checks none > /tmp/seedlogs/$4.log 2>&1
  echo "$line" >> /tmp/seedq.done
done
