#!/usr/bin/env python3
"""Run the checks against a mutated copy of AE9RB/basic-lang without touching /repo.

  tools/mutrun.py <name> <patch.diff> [--tier quick|thorough] [--tests] [--keep] [--seed N] <ID ...|all>

Creates /tmp/mut/<name>/repo (a git worktree of /repo HEAD with the patch applied) and
/tmp/mut/<name>/verif (a copy of /verif's working tree with a warm target dir; the harness's
relative path dependency ../../repo then resolves to the mutated worktree), runs the named
checks there and prints one line per check: exit code and the violation signatures.
With --tests the pinned suite (cargo test --offline) is run in the mutated worktree first.
Everything is removed afterwards unless --keep. This is a validation tool for the monitors;
nothing it writes is evidence.
"""
import json
import os
import re
import subprocess
import sys
import time

VERIF = os.path.dirname(os.path.dirname(os.path.abspath(__file__)))


def sh(cmd, **kw):
    return subprocess.run(cmd, shell=True, stdout=subprocess.PIPE, stderr=subprocess.STDOUT, text=True, **kw)


def main():
    a = sys.argv[1:]
    name, patch = a[0], os.path.abspath(a[1])
    rest = a[2:]
    tier, tests, keep, seed = "quick", False, False, os.environ.get("VERIF_SEED", "1")
    ids = []
    i = 0
    while i < len(rest):
        if rest[i] == "--tier":
            tier = rest[i + 1]; i += 2
        elif rest[i] == "--seed":
            seed = rest[i + 1]; i += 2
        elif rest[i] == "--tests":
            tests = True; i += 1
        elif rest[i] == "--keep":
            keep = True; i += 1
        else:
            ids.append(rest[i]); i += 1
    if ids == ["all"] or not ids:
        ids = ["C%02d" % k for k in range(1, 21)]
    base = "/tmp/mut/" + name
    repo = base + "/repo"
    verif = base + "/verif"
    sh("git -C /repo worktree remove --force %s; rm -rf %s" % (repo, base))
    os.makedirs(base)
    r = sh("git -C /repo worktree add --detach %s HEAD" % repo)
    if r.returncode:
        print(r.stdout); return 2
    result = {"name": name, "patch": patch, "tier": tier, "checks": {}}
    try:
        r = sh("git -C %s apply --whitespace=nowarn %s" % (repo, patch))
        if r.returncode:
            print("PATCH DOES NOT APPLY:\n" + r.stdout); return 2
        if tests:
            os.makedirs(repo + "/target", exist_ok=True)
            sh("cp -a /repo/target/debug %s/target/" % repo)
            r = sh("cd %s && CARGO_NET_OFFLINE=true cargo test --offline --no-fail-fast 2>&1 | grep -E '^test result|FAILED|failed|^error'" % repo)
            passed = sum(int(m) for m in re.findall(r"(\d+) passed", r.stdout))
            failed = sum(int(m) for m in re.findall(r"(\d+) failed", r.stdout))
            result["tests"] = {"passed": passed, "failed": failed}
            print("pinned suite on the mutated tree: %d passed, %d failed" % (passed, failed), flush=True)
            if "error" in r.stdout and passed == 0:
                print(r.stdout)
            sh("rm -rf %s/target" % repo)
        # the committed harness (HEAD), so that edits in progress in /verif do not leak into the run
        if os.environ.get("MUT_WORKTREE"):
            sh("mkdir -p %s && rsync -a --exclude target --exclude logs --exclude replays --exclude .git --exclude evidence --exclude seeded %s/ %s/" % (verif, VERIF, verif))
        else:
            sh("mkdir -p %s && git -C %s archive HEAD | tar -x -C %s && rm -rf %s/seeded %s/evidence %s/mutants" % (verif, VERIF, verif, verif, verif, verif))
        # the harness depends on /repo by absolute path: point this copy at the mutated worktree
        ct = os.path.join(verif, "harness", "Cargo.toml")
        manifest = open(ct).read().replace('path = "/repo"', 'path = "%s"' % repo)
        open(ct, "w").write(manifest)
        sh("mkdir -p %s/harness/target && cp -a %s/harness/target/ship %s/harness/target/chk %s/harness/target/ 2>/dev/null" % (verif, VERIF, VERIF, verif))
        for pid in ids:
            t0 = time.time()
            env = dict(os.environ); env["VERIF_SEED"] = str(seed)
            p = subprocess.run(["./check", pid, tier], cwd=verif, env=env, stdout=subprocess.PIPE,
                               stderr=subprocess.STDOUT, text=True)
            sigs = re.findall(r"violation kind=\S+ sig=(.*?) case=", p.stdout)
            inc = re.findall(r"INCONCLUSIVE.*", p.stdout)
            result["checks"][pid] = {"rc": p.returncode, "sigs": sigs[:6], "inconclusive": inc[:1]}
            status = {0: "silent", 1: "FIRED", 2: "inconclusive"}.get(p.returncode, "rc=%d" % p.returncode)
            print("%s %s %-12s %5.1fs %s %s" % (name, pid, status, time.time() - t0, "; ".join(sigs[:4])[:300],
                                                inc[0][:300] if inc else ""), flush=True)
            if p.returncode == 1 and os.environ.get("MUT_VERBOSE"):
                print(p.stdout[-3000:])
    finally:
        if not keep:
            sh("git -C /repo worktree remove --force %s; rm -rf %s; git -C /repo worktree prune" % (repo, base))
    print("RESULT " + json.dumps(result))
    return 0


if __name__ == "__main__":
    sys.exit(main())
