#!/usr/bin/env python3
"""Mutation catalogue (DESIGN.md Appendix B, adapted to the current tree) -> patch files.

  tools/mutants.py gen            write /verif/mutants/<id>.diff for every entry (uses a scratch worktree)
  tools/mutants.py list           print id, expected check(s), description

Each entry: (id, [checks expected to fire], file, old, new, description). `old` must occur exactly
once in the file. These are validation inputs for the monitors, never applied to /repo itself.
"""
import os
import subprocess
import sys

VERIF = os.path.dirname(os.path.dirname(os.path.abspath(__file__)))
OUT = os.path.join(VERIF, "mutants")

M = [
    # ---- C01 control flow
    ("m01a", ["C01"], "src/mach/runtime.rs", "if select == 0 || select > len {", "if select == 0 || select >= len {",
     "ON: last target treated as out of range"),
    ("m01b", ["C01"], "src/mach/runtime.rs",
     "                            Operation::less(to_val.clone(), current)?\n",
     "                            Operation::less_equal(to_val.clone(), current)?\n",
     "NEXT: loop ends one pass early (<= instead of <)"),
    ("m01c", ["C01", "C20"], "src/mach/link.rs",
     "        for (address, (col, symbol)) in link.unlinked {\n            let mut symbol = symbol;\n            if symbol < 0 {\n                symbol += sym_offset\n            }",
     "        for (address, (col, symbol)) in link.unlinked {\n            let symbol = symbol;",
     "append: unlinked local symbols not re-based"),
    ("m01d", ["C01"], "src/mach/link.rs",
     "                    self.unlinked.insert(wh_addr, (wh_col.clone(), sym));\n                    self.unlinked.insert(addr, (col, wh_sym));",
     "                    self.unlinked.insert(wh_addr, (wh_col.clone(), wh_sym));\n                    self.unlinked.insert(addr, (col, sym));",
     "WHILE/WEND link targets swapped"),
    ("m01e", ["C01"], "src/mach/runtime.rs",
     "                if !next_name.is_empty() && var_name != next_name {\n                    continue;\n                }",
     "                if !next_name.is_empty() && var_name != next_name {\n                    return Err(error!(NextWithoutFor));\n                }",
     "NEXT v does not discard inner frames of other variables"),
    ("m01f", ["C01"], "src/mach/runtime.rs",
     "        self.tr = self.program.line_number_for(self.pc - 1);",
     "        self.tr = None;",
     "TRON announces its own line"),
    # ---- C02 expressions
    ("m02a", ["C02"], "src/lang/parse.rs", "            And => 5,\n            Or => 4,", "            And => 4,\n            Or => 5,",
     "AND/OR precedence swapped"),
    ("m02b", ["C02"], "src/lang/parse.rs", "            Not => 6,\n            _ => 0,", "            Not => 8,\n            _ => 0,",
     "NOT binds tighter than relational"),
    ("m02c", ["C02"], "src/mach/operation.rs", "                Integer(r) => Ok(Single(l as f32 / r as f32)),",
     "                Integer(r) if r != 0 && l % r == 0 => Ok(Integer(l / r)),\n                Integer(r) => Ok(Single(l as f32 / r as f32)),",
     "Integer / Integer yields Integer when exact"),
    ("m02d", ["C02", "C08"], "src/mach/val.rs",
     "            Val::Single(num) => {\n                let num = num.floor();\n                if num >= i16::min_value() as f32",
     "            Val::Single(num) => {\n                let num = num.round();\n                if num >= i16::min_value() as f32",
     "Single -> Integer rounds instead of flooring"),
    ("m02e", ["C02"], "src/mach/operation.rs",
     "            Single(l) => match rhs {\n                Integer(r) => Ok(Single(l - r as f32)),\n                Single(r) => Ok(Single(l - r)),\n                Double(r) => Ok(Double(l as f64 - r)),",
     "            Single(l) => match rhs {\n                Integer(r) => Ok(Single(l - r as f32)),\n                Single(r) => Ok(Single(l - r)),\n                Double(r) => Ok(Single(l - r as f32)),",
     "Single - Double stays Single"),
    ("m02f", ["C02"], "src/lang/parse.rs", "            DivideInt => 10,\n            Modulo => 9,", "            DivideInt => 9,\n            Modulo => 9,",
     "\\ and MOD share a level"),
    # ---- C03 robustness
    ("m03a", ["C03"], "src/lang/lex.rs",
     "            crate::mach::verif::tick(\"lex::whitespace\");\n            self.chars.pop_front();\n            len += 1;",
     "            crate::mach::verif::tick(\"lex::whitespace\");\n            if len < 64 {\n                self.chars.pop_front();\n            }\n            len += 1;",
     "whitespace scanner stops consuming after 64 blanks (hang)"),
    ("m03b", ["C03", "C07"], "src/mach/function.rs",
     "        if start == 0 {\n            return Err(error!(IllegalFunctionCall; \"START IS 0\"));\n        }\n",
     "", "INSTR start 0 guard removed (start-1 underflow)"),
    ("m03c", ["C03"], "src/mach/runtime.rs",
     "            State::Interrupt => {\n                self.state = State::RuntimeError(error!(Break, line_number(self)));\n            }",
     "            State::Interrupt => {\n                if self.tron {\n                    self.state = State::Running;\n                } else {\n                    self.state = State::RuntimeError(error!(Break, line_number(self)));\n                }\n            }",
     "interrupt ignored while TRON is on"),
    ("m03d", ["C03"], "src/mach/listing.rs",
     "    pub fn remove(&mut self, ln: LineNumber) -> Option<Line> {\n        Arc::make_mut(&mut self.source).remove(&ln)",
     "    pub fn remove(&mut self, ln: LineNumber) -> Option<Line> {\n        Arc::get_mut(&mut self.source).unwrap().remove(&ln)",
     "remove panics while a snapshot is alive"),
    ("m03e", ["C03"], "src/mach/runtime.rs",
     "                        field = &field[1..field.len() - 1];",
     "                        field = &field[1..field.len() - 2];",
     "INPUT quote stripping slices off a char boundary / panics on \"\""),
    # ---- C04 what runs is what LIST shows
    ("m04a", ["C04"], "src/mach/runtime.rs",
     "            self.listing.insert(line);\n            self.dirty = true;",
     "            if self.listing.insert(line).is_none() {\n                self.dirty = true;\n            }",
     "replacing an existing line does not mark dirty"),
    ("m04b", ["C04"], "src/mach/runtime.rs",
     "        if self.listing.remove_range(from..=to) {\n            self.dirty = true;",
     "        if self.listing.remove_range(from..=to) {",
     "DELETE does not mark dirty"),
    ("m04c", [], "src/mach/runtime.rs",
     "    fn enter_indirect(&mut self, line: Line) {\n        self.cont = State::Stopped;",
     "    fn enter_indirect(&mut self, line: Line) {",
     "EQUIVALENT: editing a line keeps CONT -- the recompile before the next direct line resets it anyway"),
    ("m04d", ["C04"], "src/mach/runtime.rs",
     "            // addresses held by the previous compile are meaningless now\n            self.stack.clear();",
     "            // addresses held by the previous compile are meaningless now",
     "stack survives recompilation (stale RETURN/NEXT)"),
    ("m04e", ["C04", "C14"], "src/mach/runtime.rs",
     "        self.listing.renum(new_start, old_start, step)?;\n        self.dirty = true;",
     "        self.listing.renum(new_start, old_start, step)?;",
     "RENUM does not mark dirty"),
    # ---- C05 listing faithful
    ("m05a", ["C05"], "src/lang/token.rs", "            String(s) => write!(f, \"\\\"{}\\\"\", s),", "            String(s) => write!(f, \"\\\"{}\", s),",
     "closing quote dropped from listed string literals"),
    ("m05b", ["C05"], "src/lang/lex.rs", "        BasicLexer::separate_words(&mut tokens);\n", "",
     "separate_words not called"),
    ("m05c", ["C05", "C16"], "src/lang/token.rs", "            Octal(s) => write!(f, \"&{}\", s),", "            Octal(s) => write!(f, \"&O{}\", s),",
     "octal literal listed as &O.. which does not lex back"),
    ("m05d", ["C05"], "src/lang/lex.rs",
     "                let s = s.trim_end_matches(is_basic_whitespace);",
     "                let s = s.trim_matches(is_basic_whitespace);",
     "remark text loses leading blanks"),
    # ---- C06 variables
    ("m06a", ["C06"], "src/mach/var.rs", "            if r > d {", "            if r >= d {", "top subscript rejected"),
    ("m06b", ["C06"], "src/mach/var.rs", ".or_insert_with(|| vec![10; requested.len()]),", ".or_insert_with(|| vec![11; requested.len()]),",
     "auto-dimension 11"),
    ("m06c", ["C06"], "src/mach/var.rs", "            let _ = write!(output, \",{}\", b);", "            let _ = write!(output, \"{}\", b);",
     "array key without separators (aliasing (1,23) / (12,3))"),
    ("m06d", ["C06"], "src/mach/runtime.rs",
     "            Val::Double(_) if matches!(val2, Val::Double(_)) => {}\n",
     "            Val::Double(_) if matches!(val2, Val::Double(_) | Val::Single(_)) => {}\n",
     "SWAP accepts Double with Single"),
    ("m06e", ["C06"], "src/mach/var.rs",
     "        let mut pattern = var_name.to_string();\n        pattern.push(',');\n        self.vars.retain(|k, _| !k.starts_with(&pattern));",
     "        let pattern = var_name.to_string();\n        self.vars.retain(|k, _| !k.starts_with(&pattern));",
     "ERASE A also clears AB() elements and scalars starting with A"),
    # ---- C07 strings
    ("m07a", ["C07"], "src/mach/function.rs", "        match string.char_indices().nth(len) {\n            Some((pos, _ch)) => Ok(Val::String(string[..pos].into())),\n            None => Ok(Val::String(string)),\n        }\n    }\n\n    pub fn len",
     "        match string.char_indices().nth(len + 1) {\n            Some((pos, _ch)) => Ok(Val::String(string[..pos].into())),\n            None => Ok(Val::String(string)),\n        }\n    }\n\n    pub fn len",
     "LEFT$ one character too many"),
    ("m07b", ["C07"], "src/mach/function.rs", "        match string.char_indices().rev().nth(len - 1) {", "        match string.char_indices().rev().nth(len) {",
     "RIGHT$ one character too many"),
    ("m07c", ["C07"], "src/mach/var.rs", "                if s.chars().count() > 255 {", "                if s.chars().count() > 256 {", "256-character string stored"),
    ("m07d", ["C07"], "src/mach/function.rs", "        Val::try_from(string.chars().count())", "        Val::try_from(string.len())", "LEN in bytes"),
    ("m07e", ["C07"], "src/mach/runtime.rs", "            if index + 1 >= pos && len > 0 {", "            if index >= pos && len > 0 {",
     "MID$ assignment starts one character late"),
    # ---- C08 integer arithmetic
    ("m08a", ["C08"], "src/mach/operation.rs",
     "                Integer(r) => match l.checked_add(r) {\n                    Some(i) => Ok(Integer(i)),\n                    None => Err(error!(Overflow)),\n                },",
     "                Integer(r) => Ok(Integer(l.wrapping_add(r))),", "Integer + wraps"),
    ("m08b", ["C08"], "src/mach/val.rs",
     "                if num >= i16::min_value() as f64 && num <= i16::max_value() as f64 {",
     "                if num >= i16::min_value() as f64 && num < i16::max_value() as f64 {",
     "Double 32767 does not convert"),
    ("m08c", ["C08"], "src/mach/operation.rs",
     "        match lhs.checked_div(rhs) {\n            Some(n) => Ok(Val::Integer(n)),\n            None => Err(error!(Overflow)),\n        }",
     "        Ok(Val::Integer(lhs.wrapping_div(rhs)))", "-32768\\-1 wraps"),
    # ---- C09 DATA
    ("m09a", [], "src/mach/link.rs", "                (ops_addr + ops_addr_offset, data_addr + data_addr_offset),",
     "                (ops_addr + ops_addr_offset, data_addr),", "EQUIVALENT: data offsets of fragment-local symbols are never used (line symbols are pushed at program level)"),
    ("m09b", ["C09", "C12"], "src/mach/runtime.rs", "        self.program.restore_data(0);\n        self.stack.clear();", "        self.stack.clear();",
     "CLEAR/RUN do not rewind DATA"),
    ("m09c", ["C09"], "src/mach/link.rs", "                            Opcode::Restore(_) => Some(Opcode::Restore(*data_dest)),",
     "                            Opcode::Restore(_) => Some(Opcode::Restore(*data_dest + 1)),", "RESTORE n positions one past"),
    # ---- C10 user functions
    ("m10a", ["C10"], "src/mach/runtime.rs", "                for arg in args.drain(..).rev() {", "                for arg in args.drain(..) {",
     "arguments bound in reverse"),
    ("m10b", ["C10"], "src/mach/runtime.rs",
     "                    if first\n                        && matches!(",
     "                    if !first\n                        && matches!(",
     "RETURN keeps the wrong value"),
    ("m10c", ["C10"], "src/lang/parse.rs",
     "                            match var_map.get(&ident) {\n                                Some(var) => Expression::Variable(var.clone()),\n                                None => Expression::Variable(Variable::Unary(col, ident.into())),\n                            }",
     "                            Expression::Variable(Variable::Unary(col, ident.into()))",
     "parameters in the body read the globals"),
    # ---- C11 print layout
    ("m11a", ["C11"], "src/lang/parse.rs", "vec![Expression::Integer(self.col.clone(), -14)],", "vec![Expression::Integer(self.col.clone(), -15)],", "zone width 15"),
    ("m11b", ["C11"], "src/mach/function.rs", "            tab - (print_col % tab)\n", "            tab - (print_col % tab) - if print_col % tab == 13 { 1 } else { 0 }\n",
     "comma from the last column of a zone advances one less"),
    ("m11c", ["C11"], "src/mach/runtime.rs", "                '\\n' => self.print_col = 0,", "                '\\n' => {}", "newline in a string does not reset the column"),
    ("m11d", ["C11"], "src/mach/val.rs",
     "                if s.chars().filter(char::is_ascii_digit).count() > 9 {\n                    format!(\"{:E}\", num)",
     "                if s.chars().filter(char::is_ascii_digit).count() > 9 {\n                    format!(\"{:.5E}\", num)",
     "large Singles printed with 6 digits"),
    ("m11e", ["C11"], "src/mach/runtime.rs", "                _ => self.print_col += 1,", "                _ => self.print_col += ch.len_utf8(),", "column counted in bytes"),
    # ---- C12 reset
    ("m12a", ["C12"], "src/mach/runtime.rs", "        self.vars.clear();\n        self.functions.clear();\n        self.cont = State::Stopped;\n    }\n\n    fn r#cls",
     "        self.vars.clear();\n        self.cont = State::Stopped;\n    }\n\n    fn r#cls", "CLEAR keeps user functions"),
    ("m12b", ["C12"], "src/mach/var.rs", "        self.dims.clear();\n        self.types = Default::default();", "        self.dims.clear();", "CLEAR keeps DEFtype table"),
    ("m12c", ["C12"], "src/mach/var.rs", "        self.vars.clear();\n        self.dims.clear();", "        self.vars.clear();", "CLEAR keeps dimensions"),
    # ---- C13 interrupt / cont
    ("m13a", ["C13"], "src/mach/runtime.rs", "        self.cont_pc = self.pc;\n        if self.pc >= self.entry_address {\n            self.cont = State::Stopped;\n            self.stack.clear();",
     "        self.cont_pc = self.pc + 1;\n        if self.pc >= self.entry_address {\n            self.cont = State::Stopped;\n            self.stack.clear();", "interrupt saves pc+1"),
    ("m13b", ["C01"], "src/mach/runtime.rs",
     "                        self.print_col += num.len();\n                        return Ok(Event::Print(num));",
     "                        self.print_col += num.len();\n                        self.pc += 1;\n                        return Ok(Event::Print(num));",
     "trace print skips an instruction"),
    ("m13c", ["C17", "C01"], "src/mach/runtime.rs",
     "            self.state = State::Input;\n            self.pc -= 1;\n            return Ok(Some(Event::Running));",
     "            self.state = State::Input;\n            return Ok(Some(Event::Running));",
     "INPUT does not rewind pc when entering Input state"),
    # ---- C14 renum
    ("m14a", ["C14"], "src/lang/line.rs", "            Goto(_, ln) | Gosub(_, ln) | Restore(_, ln) | Run(_, ln) => self.line(ln),", "            Goto(_, ln) | Restore(_, ln) | Run(_, ln) => self.line(ln),",
     "GOSUB targets not renumbered"),
    ("m14b", ["C14"], "src/mach/listing.rs", "            if ln >= old_start {", "            if ln > old_start {",
     "the line numbered exactly old-start keeps its number"),
    ("m14c", [], "src/lang/line.rs", "        visitor.replace.sort_by_key(|(col, _)| col.start);\n", "", "EQUIVALENT: the visitor already collects operands in source order, the sort is a no-op"),
    # ---- C15 store
    ("m15a", ["C15"], "src/mach/listing.rs", "                    *range = Some(num + 1)..=*range.end();", "                    *range = Some(num + 2)..=*range.end();", "LIST skips line n+1"),
    ("m15b", ["C15"], "src/lang/parse.rs", "        if from_num > to_num {", "        if from_num > to_num || (from_num == to_num && from_num == 0.0) {",
     "LIST 0 / DELETE 0 / 0-0 rejected as inverted"),
    ("m15c", ["C15"], "src/mach/listing.rs", "            if line_number < range.end() {", "            if line_number <= range.end() {", "LIST a-b where b exists: range not terminated"),
    # ---- C16 spelling
    ("m16a", ["C16", "C02"], "src/lang/lex.rs", "            if ch == 'd' {\n                ch = 'D'\n            }\n", "", "lower-case d exponent not folded"),
    ("m16b", ["C16"], "src/lang/lex.rs", "matches!(self.chars.front(), Some('H') | Some('h'))", "matches!(self.chars.front(), Some('H'))", "&h not recognised"),
    ("m16c", ["C16"], "src/lang/lex.rs",
     "                    if let Token::Operator(Operator::Less) = &ttt[2] {\n                        locs.push((index, Token::Operator(Operator::LessEqual)));\n                    }\n                }\n            }\n            if let Token::Operator(Operator::Greater) = &ttt[0] {",
     "                }\n            }\n            if let Token::Operator(Operator::Greater) = &ttt[0] {",
     "`= <` with a blank is not collapsed"),
    # ---- C17 input
    ("m17a", ["C17"], "src/mach/runtime.rs", "                    ',' if !in_quote => {", "                    ',' => {", "commas inside quotes split"),
    ("m17b", ["C17"], "src/mach/runtime.rs", "        let is_caps = !matches!(caps, Val::Integer(i) if i == 0);", "        let is_caps = matches!(caps, Val::Integer(i) if i == 0);", "caps inverted"),
    ("m17c", ["C17"], "src/mach/runtime.rs", "            if len != vec_val.len() {", "            if len < vec_val.len() {", "too few fields accepted"),
    ("m17d", ["C17"], "src/mach/runtime.rs", "                let mut field = field.trim();\n                if self.vars.is_string(&var_name) {", "                let mut field = field.trim_start();\n                if self.vars.is_string(&var_name) {",
     "trailing blanks kept (and quotes then not stripped)"),
    # ---- C18 memory
    ("m18a", ["C18", "C17"], "src/mach/runtime.rs", "                self.stack.pop()?;\n                self.stack.pop()?;\n                self.stack.pop()?;\n                self.stack.pop()?;\n                return Ok(None);",
     "                self.stack.pop()?;\n                self.stack.pop()?;\n                self.stack.pop()?;\n                return Ok(None);", "INPUT leaves one value on the stack"),
    ("m18b", ["C18"], "src/mach/var.rs", "        } {\n            self.vars.remove(var_name);\n        } else {", "        } && !var_name.contains(',') {\n            self.vars.remove(var_name);\n        } else {",
     "array elements set to 0 keep their slot"),
    ("m18c", ["C18"], "src/mach/stack.rs", "        u16::max_value() as usize\n", "        u32::max_value() as usize\n", "pools unbounded"),
    # ---- C19 diagnostics
    ("m19a", ["C19"], "src/lang/error.rs", "                let offset = num.to_string().len() + 1;", "                let offset = num.to_string().len();", "column prefix off by one"),
    ("m19b", ["C19"], "src/lang/parse.rs", "            self.col.end += token.to_string().chars().count();", "            self.col.end += token.to_string().len();", "columns in bytes"),
    ("m19c", ["C19"], "src/mach/runtime.rs", "                    if has_indirect_errors && self.pc < self.entry_address {", "                    if has_indirect_errors && self.pc > self.entry_address {", "gate inverted"),
    ("m19d", ["C19"], "src/mach/link.rs", "                None => errors.push(error!(WendWithoutWhile, self.line_number_for(addr), ..&col)),", "                None => errors.push(error!(WendWithoutWhile, self.line_number_for(addr + 1), ..&col)),",
     "unmatched WEND attributed to the line of the next instruction"),
    # ---- C20 layout
    ("m20a", ["C20", "C01"], "src/mach/link.rs", "            self.unlinked\n                .insert(address + ops_addr_offset, (col.clone(), symbol));", "            self.unlinked\n                .insert(address + ops_addr_offset + (ops_addr_offset >> 12), (col.clone(), symbol));",
     "fix-ups misplaced once the program exceeds 4096 instructions"),
    ("m20b", ["C20"], "src/mach/link.rs",
     "                if *line_number <= LineNumber::max_value() as isize {\n                    return Some(*line_number as u16);",
     "                if *line_number < LineNumber::max_value() as isize {\n                    return Some(*line_number as u16);",
     "errors in line 65529 are reported without a line"),
]


def sh(cmd):
    return subprocess.run(cmd, shell=True, stdout=subprocess.PIPE, stderr=subprocess.STDOUT, text=True)


def gen():
    os.makedirs(OUT, exist_ok=True)
    wt = "/tmp/mutgen"
    sh("git -C /repo worktree remove --force %s; rm -rf %s" % (wt, wt))
    r = sh("git -C /repo worktree add --detach %s HEAD" % wt)
    if r.returncode:
        print(r.stdout); return 1
    bad = 0
    try:
        for mid, checks, path, old, new, desc in M:
            p = os.path.join(wt, path)
            src = open(p).read()
            n = src.count(old)
            if n != 1:
                print("%s: pattern occurs %d times in %s" % (mid, n, path)); bad += 1
                continue
            open(p, "w").write(src.replace(old, new))
            d = sh("git -C %s diff" % wt).stdout
            open(os.path.join(OUT, mid + ".diff"), "w").write(d)
            sh("git -C %s checkout -- ." % wt)
    finally:
        sh("git -C /repo worktree remove --force %s; rm -rf %s; git -C /repo worktree prune" % (wt, wt))
    print("generated %d patches, %d bad" % (len(M) - bad, bad))
    return 1 if bad else 0


if __name__ == "__main__":
    if len(sys.argv) > 1 and sys.argv[1] == "gen":
        sys.exit(gen())
    for mid, checks, path, old, new, desc in M:
        print(mid, ",".join(checks), path, "-", desc)
