#!/bin/sh
# mkwt.sh <name>: scratch worktree of /repo HEAD at /tmp/wt/<name> with a warm target dir.
set -e
n="$1"; d=/tmp/wt/$n
git -C /repo worktree add --detach "$d" HEAD >/dev/null 2>&1
mkdir -p "$d/target"
cp -a /repo/target/debug "$d/target/" 2>/dev/null || true
cp /repo/target/CACHEDIR.TAG "$d/target/" 2>/dev/null || true
echo "$d"
