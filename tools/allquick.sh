#!/bin/sh
# allquick.sh <tier> <seed...>: every claimed check at each seed; prints one line per check and a summary.
tier=$1; shift
cd "$(dirname "$0")/.."
bad=0
for seed in "$@"; do
  for p in C01 C02 C03 C04 C05 C06 C07 C08 C09 C10 C11 C12 C13 C14 C15 C16 C17 C18 C19 C20; do
    out=$(VERIF_SEED=$seed ./check $p $tier 2>&1); rc=$?
    echo "$out" | tail -1
    if [ $rc -ne 0 ]; then bad=$((bad+1)); echo "$out" | grep -E "violation kind|INCONCLUSIVE|VIOLATION" | head -5; fi
  done
done
echo "non-zero exits: $bad"
